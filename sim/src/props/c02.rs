//! C02 No silent failure: every failure class x every position at which it
//! can be injected into an otherwise clean project must end in a displayed
//! error-level report and a non-zero exit status; and `No issues found.`
//! with status 0 only when every named file was read to EOF and every
//! definition in it was analysed.

use crate::common::*;
use crate::driver::{harness_error, Env};
use crate::findings::{describe, multiset, rel_path, NF};
use crate::gen::{self, file_tokens, render, Def, DefKind, FileUnit, Knobs, MainDecl, Project, ProjectShape, Stmt, Style};
use crate::outparse::{parse_stdout, Summary};
use crate::procrun::{Exit, Outcome, Runner};
use crate::report::{conclude, Evidence, Violation};
use crate::rng::{hash_str, Rng};
use crate::world::{Case, Fault, World};
use serde_json::{json, Value};
use std::collections::{BTreeMap, BTreeSet};
use std::time::Instant;

pub const CLASSES: [&str; 27] = [
    "included:broken-template-used-anonymously",
    "missing:enoent-at-realpath",
    "missing:vanishes-after-realpath",
    "main:second-main-in-included-file",
    "missing:absent-file",
    "unreadable:enoent-at-open",
    "unreadable:eacces-at-open",
    "unreadable:eio-at-open",
    "unreadable:emfile-at-open",
    "unreadable:eio-at-read",
    "not-utf8",
    "torn:truncated-inside-definition",
    "torn:unterminated-comment",
    "pragma:unsupported-version",
    "syntax:invalid-character",
    "syntax:bracket-deleted",
    "syntax:stray-bracket",
    "tuple:arity-mismatch",
    "tuple:in-function",
    "anon:in-function",
    "anon:wrong-input-count",
    "anon:unknown-input-name",
    "anon:surplus-named-input",
    "anon:as-main",
    "params:duplicate-names",
    "dup-def",
    "main:two-main-components",
];

struct Base {
    /// diagnostics the fault-free run displays (set once that run is in)
    twin_displayed: usize,
    project: Project,
    style: Style,
    style_seed: u64,
    opts: Opts,
    case: Case,
}

fn build_base(seed: u64, i: usize) -> Base {
    let base = Rng::new(seed).sub_n("C02", i as u64);
    let mut r_proj = base.sub("project");
    let mut r_style = base.sub("style");
    let mut r_opts = base.sub("opts");
    let mut r_plan = base.sub("plan");
    let mut knobs = Knobs::random(&mut r_proj);
    knobs.dup_params = false;
    // the base project has no failure of its own: one name, one definition
    knobs.shared_names = false;
    let shape = ProjectShape { max_files: 3, min_defs: 1, max_defs: 5, with_main: true, pragma_always: true, name_suffix: String::new() };
    let mut project = gen::gen_project(&mut r_proj, &knobs, &shape);
    if r_proj.chance(1, 3) {
        project.named = (0..project.files.len()).collect();
    }
    // an option pair that changes nothing: the directory of the named files is also given as a
    // library directory (projects that vendor their dependencies next to the circuits do this)
    let mut r_libs = base.sub("libs");
    if r_libs.chance(1, 5) {
        project.libs = vec![r_libs.pick(&[".", "./", "@ROOT@"]).to_string()];
    }
    let style = Style::random(&mut r_style);
    let style_seed = r_style.next_u64();
    let mut opts = Opts::random(&mut r_opts);
    // error ids are never allowed in these runs
    opts.allow.retain(|a| a.starts_with("CS") || a.starts_with("CA"));
    let world = render_world(&project, &style, style_seed);
    let mut plan = quiet_plan(&mut r_plan);
    // part of the configuration, not the planted failure: the SARIF file may be
    // impossible to create or to write (read-only or full disk)
    if opts.sarif.is_some() && r_plan.chance(1, 4) {
        let (call, errno) = *r_plan.pick(&[("create", libc::EACCES), ("create", libc::ENOSPC), ("write", libc::ENOSPC), ("write", libc::EDQUOT)]);
        plan.faults.push(Fault { call: call.into(), errno, occurrence: 1, suffix: "out.sarif".into() });
    }
    // a loaded machine: any clock read may come 11 s late. Whatever is time-boxed may be cut
    // short; no definition may go unanalysed without a word because of that
    if r_plan.chance(1, 5) {
        plan.stall_permille = *r_plan.pick(&[30, 200, 1000]);
    }
    let case = make_case(&project, world, &opts, plan);
    Base { twin_displayed: 0, project, style, style_seed, opts, case }
}

fn render_world(p: &Project, style: &Style, style_seed: u64) -> World {
    p.render_with_layout(&mut Rng::new(style_seed), style).0
}

fn render_layout(p: &Project, style: &Style, style_seed: u64) -> gen::Layout {
    p.render_with_layout(&mut Rng::new(style_seed), style).1
}

fn render_tokens(toks: &[String], style: &Style, style_seed: u64) -> String {
    render(toks, style, &mut Rng::new(style_seed).sub("tokens"))
}

pub struct Planted {
    pub class: &'static str,
    pub detail: String,
    pub case: Case,
    /// files in which the new error may be located
    pub where_ok: Vec<String>,
    /// (kind, name) of the definitions expected to be analysed if the run ends clean
    pub defs: Vec<(String, String)>,
    /// user-named paths (relative) that must have been read
    pub named: Vec<String>,
    /// where the definitions are, when the planted world was rendered from a project
    pub layout: Option<gen::Layout>,
}

fn simple_template(name: &str, body: &str) -> Def {
    Def {
        kind: DefKind::Template { custom: false, parallel: false },
        name: name.to_string(),
        params: vec![],
        body: vec![Stmt::Raw(body.split_whitespace().map(|s| s.to_string()).collect())],
        inputs: vec![],
        outputs: vec![],
        refs: vec![],
    }
}

fn raw(src: &str) -> Stmt {
    Stmt::Raw(src.split_whitespace().map(|s| s.to_string()).collect())
}

/// Plant one failure of class `class` at a position chosen by `rng`. None if the
/// class cannot be planted in this project.
fn plant(b: &Base, class: &'static str, rng: &mut Rng) -> Option<Planted> {
    let p = &b.project;
    let target_fi = p.named[rng.usize(p.named.len())];
    let target = p.files[target_fi].path.clone();
    let mut case = b.case.clone();
    let mut project = p.clone();
    let mut where_ok = vec![target.clone()];
    let mut detail = String::new();
    let mut rerender = false;
    let named_paths = p.named_paths();
    let mut named = named_paths.clone();

    let templates_in_target: Vec<usize> =
        p.files[target_fi].defs.iter().enumerate().filter(|(_, d)| d.is_template() && !matches!(d.kind, DefKind::Template { custom: true, .. })).map(|(i, _)| i).collect();
    let all_templates: Vec<Def> = p.files.iter().flat_map(|f| f.defs.iter()).filter(|d| d.is_template()).cloned().collect();

    match class {
        "missing:enoent-at-realpath" => {
            case.plan.faults.push(Fault { call: "realpath".into(), errno: libc::ENOENT, occurrence: 1, suffix: target.clone() });
        }
        "missing:vanishes-after-realpath" => {
            // resolves, then is gone when it is opened (errno -2 = succeed, then unlink)
            case.plan.faults.push(Fault { call: "realpath".into(), errno: -2, occurrence: 1, suffix: target.clone() });
        }
        "missing:absent-file" if rng.chance(1, 4) => {
            // so many absent files that the number of displayed reports is a multiple of 256
            let n = 256 * (1 + rng.usize(2)) - (b.twin_displayed % 256);
            where_ok.clear();
            for k in 0..n {
                let ghost = format!("ghost{k}.circom");
                case.argv.push(ghost.clone());
                named.push(ghost.clone());
                where_ok.push(ghost);
            }
            detail = format!("{n} absent files ({} reports in all)", n + b.twin_displayed);
        }
        "missing:absent-file" => {
            let ghost = "ghost.circom".to_string();
            let pos = rng.usize(named_paths.len() + 1);
            let at = case.argv.len() - named_paths.len() + pos;
            case.argv.insert(at, ghost.clone());
            named.push(ghost.clone());
            where_ok = vec![ghost];
        }
        "unreadable:enoent-at-open" | "unreadable:eacces-at-open" | "unreadable:eio-at-open" | "unreadable:emfile-at-open" => {
            let errno = match class {
                "unreadable:enoent-at-open" => libc::ENOENT,
                "unreadable:eacces-at-open" => libc::EACCES,
                "unreadable:eio-at-open" => libc::EIO,
                _ => libc::EMFILE,
            };
            case.plan.faults.push(Fault { call: "open".into(), errno, occurrence: 1, suffix: target.clone() });
        }
        "unreadable:eio-at-read" => {
            let occ = 1 + rng.below(3) as i64;
            case.plan.shortread = 16 + rng.below(64) as i64; // several reads per file
            case.plan.faults.push(Fault { call: "read".into(), errno: libc::EIO, occurrence: occ, suffix: target.clone() });
            detail = format!("read #{occ}");
        }
        "not-utf8" => {
            let len = case.world.files[&target].bytes().len();
            let at = rng.usize(len.max(1));
            corrupt_file(&mut case.world, &target, &Corruption::BadUtf8(at));
            detail = format!("byte {at}");
        }
        "torn:truncated-inside-definition" => {
            let mut toks = Vec::new();
            file_tokens(&p.files[target_fi], &mut toks);
            // positions strictly inside a definition body (brace depth > 0)
            let mut depth = 0i32;
            let mut cands = Vec::new();
            for (i, t) in toks.iter().enumerate() {
                if t == "{" && (i == 0 || !matches!(toks[i - 1].as_str(), "signal" | "input" | "output" | "main")) {
                    depth += 1;
                }
                if t == "}" && depth > 0 {
                    depth -= 1;
                }
                if depth > 0 {
                    cands.push(i + 1);
                }
            }
            if cands.is_empty() {
                return None;
            }
            let cut = cands[rng.usize(cands.len())];
            let mut text = render_tokens(&toks[..cut], &b.style, b.style_seed);
            // sometimes cut in the middle of the last token
            if rng.chance(1, 3) {
                let k = 1 + rng.usize(3);
                let keep = text.trim_end().len().saturating_sub(k);
                while !text.is_char_boundary(keep.min(text.len())) {
                    text.pop();
                }
                text.truncate(keep.min(text.len()));
            }
            if text.trim().is_empty() {
                return None;
            }
            case.world.put(&target, &text);
            detail = format!("after token {cut} of {}", toks.len());
        }
        "torn:unterminated-comment" => {
            let mut text = case.world.get_text(&target)?.to_string();
            let tail = *rng.pick(&[
                "/* never closed\n",
                "/* torn here",
                "/*\ntemplate Hidden() { signal input x; }\n",
                "/* **\n",
                "/*/",
                "/* ends in a star *",
                "/**",
                "/** doc\n *",
                "/* a **",
            ]);
            // (the last line may lack its terminator and may end in a line comment)
            if !text.ends_with('\n') {
                text.push('\n');
            }
            text.push_str(tail);
            case.world.put(&target, &text);
            detail = format!("{tail:?}");
        }
        "pragma:unsupported-version" => {
            // (also components at and beyond the machine word: they must not wrap to something supported)
            let v = *rng.pick(&[
                "3.0.0", "2.1.5", "2.2.0", "1.0.0", "2.1.10", "10.0.0", "0.9.9", "2.10.0", "1.9.9",
                "2.1.18446744073709551616", "2.18446744073709551616.0", "2.1.4294967296", "2.4294967297.0", "2.1.340282366920938463463374607431768211456", "18446744073709551618.0.0",
            ]);
            project.files[target_fi].pragma = Some(v.to_string());
            rerender = true;
            detail = v.to_string();
        }
        "syntax:invalid-character" | "syntax:bracket-deleted" | "syntax:stray-bracket" => {
            let mut toks = Vec::new();
            file_tokens(&p.files[target_fi], &mut toks);
            if toks.is_empty() {
                return None;
            }
            match class {
                "syntax:invalid-character" => {
                    let at = rng.usize(toks.len() + 1);
                    let c = *rng.pick(&["@", "#", "'", "`", "€"]);
                    toks.insert(at, c.to_string());
                    detail = format!("`{c}` before token {at}");
                }
                "syntax:bracket-deleted" => {
                    let idx: Vec<usize> = toks.iter().enumerate().filter(|(_, t)| matches!(t.as_str(), "(" | ")" | "{" | "}" | "[" | "]")).map(|(i, _)| i).collect();
                    if idx.is_empty() {
                        return None;
                    }
                    let at = idx[rng.usize(idx.len())];
                    detail = format!("`{}` at token {at}", toks[at]);
                    toks.remove(at);
                }
                _ => {
                    let at = rng.usize(toks.len() + 1);
                    let c = *rng.pick(&[")", "}", "]"]);
                    toks.insert(at, c.to_string());
                    detail = format!("`{c}` before token {at}");
                }
            }
            let text = render_tokens(&toks, &b.style, b.style_seed);
            case.world.put(&target, &text);
        }
        "tuple:arity-mismatch" | "anon:wrong-input-count" | "anon:unknown-input-name" | "anon:surplus-named-input" => {
            if templates_in_target.is_empty() {
                return None;
            }
            let di = templates_in_target[rng.usize(templates_in_target.len())];
            let stmt = match class {
                "tuple:arity-mismatch" => {
                    if rng.chance(1, 2) { raw("var ( tpa , tpb ) = ( 1 , 2 , 3 ) ;") } else { raw("var tpa ; var tpb ; ( tpa , tpb ) = ( 1 , 2 , 3 ) ;") }
                }
                _ => {
                    // a template with at least one scalar input and exactly one scalar output
                    let cands: Vec<&Def> = all_templates
                        .iter()
                        // (a single named input is parsed as a positional one, so an unknown
                        // name can only be wrong when there are at least two inputs)
                        .filter(|t| t.inputs.len() >= if class == "anon:unknown-input-name" { 2 } else { 1 } && t.outputs.len() == 1 && t.outputs[0].dims.is_empty() && t.inputs.iter().all(|x| x.dims.is_empty()))
                        .collect();
                    if cands.is_empty() {
                        return None;
                    }
                    let t = cands[rng.usize(cands.len())];
                    let params: Vec<String> = (0..t.params.len()).map(|_| "1".to_string()).collect();
                    if class == "anon:wrong-input-count" {
                        let n = t.inputs.len() + 1 + rng.usize(2);
                        let args: Vec<String> = (0..n).map(|k| format!("{k}")).collect();
                        raw(&format!("signal tpq <== {} ( {} ) ( {} ) ;", t.name, params.join(" , "), args.join(" , ")))
                    } else if class == "anon:surplus-named-input" {
                        // every declared input is named, and one more: an unknown or a repeated name
                        let op = |rng: &mut Rng| if rng.chance(1, 3) { "<--" } else { "<==" };
                        let mut args: Vec<String> = t.inputs.iter().map(|x| format!("{} {} 1", x.name, op(rng))).collect();
                        let extra = if rng.chance(1, 2) { "no_such_input".to_string() } else { t.inputs[rng.usize(t.inputs.len())].name.clone() };
                        let at = rng.usize(args.len() + 1);
                        args.insert(at, format!("{extra} {} 2", op(rng)));
                        raw(&format!("signal tpq <== {} ( {} ) ( {} ) ;", t.name, params.join(" , "), args.join(" , ")))
                    } else {
                        let mut args: Vec<String> = t.inputs.iter().map(|x| format!("{} <== 1", x.name)).collect();
                        args[0] = "no_such_input <== 1".to_string();
                        raw(&format!("signal tpq <== {} ( {} ) ( {} ) ;", t.name, params.join(" , "), args.join(" , ")))
                    }
                }
            };
            let body = &mut project.files[target_fi].defs[di].body;
            let at = body.len();
            body.insert(at, stmt);
            detail = format!("in template `{}`", project.files[target_fi].defs[di].name);
            rerender = true;
        }
        "tuple:in-function" => {
            let mut f = simple_template("tpf", "");
            f.kind = DefKind::Function;
            f.params = vec!["a".into()];
            f.body = vec![raw("var ( p , q ) = ( a , a ) ; return p ;")];
            project.files[target_fi].defs.push(f);
            rerender = true;
        }
        "anon:in-function" => {
            let t = all_templates.iter().find(|t| t.inputs.len() == 1 && t.outputs.len() == 1 && t.params.is_empty())?;
            let mut f = simple_template("tpf", "");
            f.kind = DefKind::Function;
            f.params = vec!["a".into()];
            f.body = vec![raw(&format!("var r = {} ( ) ( a ) ; return r ;", t.name))];
            project.files[target_fi].defs.push(f);
            rerender = true;
        }
        "anon:as-main" => {
            let t = all_templates.iter().find(|t| !t.inputs.is_empty())?.clone();
            // main may only be declared in file 0 of the project to stay a single main
            if target_fi != 0 && p.files[0].main.is_some() {
                return None;
            }
            let params: Vec<String> = (0..t.params.len()).map(|_| "2".to_string()).collect();
            let args: Vec<String> = (0..t.inputs.len()).map(|_| "1".to_string()).collect();
            let f = &mut project.files[target_fi];
            f.main = None;
            // the main declaration is written verbatim after the definitions
            let mut holder = simple_template("TpMainHolder", "signal input x ;");
            holder.body.push(raw(""));
            f.defs.push(holder);
            let text_main = format!("component main = {} ( {} ) ( {} ) ;", t.name, params.join(" , "), args.join(" , "));
            let w = render_world(&project, &b.style, b.style_seed);
            let mut text = w.get_text(&target)?.to_string();
            if !text.ends_with('\n') {
                text.push('\n');
            }
            text.push_str(&text_main);
            text.push('\n');
            let mut world = w.clone();
            world.put(&target, &text);
            // the template may live in a file the target does not include
            case.world = world;
            detail = text_main;
            let defs = planted_defs(&project);
            return Some(Planted { class, detail, case, where_ok, defs, named, layout: None });
        }
        "params:duplicate-names" => {
            let d = if rng.chance(1, 2) {
                let mut t = simple_template("TpDup", "signal input x ; signal output y ; y <== x ;");
                t.params = vec!["a".into(), "a".into()];
                t
            } else {
                let mut f = simple_template("tpdupf", "return a ;");
                f.kind = DefKind::Function;
                f.params = vec!["a".into(), "b".into(), "a".into()];
                f
            };
            detail = d.name.clone();
            let is_t = d.is_template();
            project.files[target_fi].defs.push(d);
            // often another template of a named file instantiates the broken one, so that
            // it is looked up (and its lifting attempted) from outside, before or after its
            // own analysis depending on the hash key
            if is_t && rng.chance(2, 3) {
                let mut hosts: Vec<(usize, usize)> = Vec::new();
                for &fi in &p.named {
                    for (di, dd) in project.files[fi].defs.iter().enumerate() {
                        if dd.is_template() && dd.name != "TpDup" && !matches!(dd.kind, DefKind::Template { custom: true, .. }) {
                            hosts.push((fi, di));
                        }
                    }
                }
                if !hosts.is_empty() {
                    let (fi, di) = hosts[rng.usize(hosts.len())];
                    project.files[fi].defs[di].body.push(raw("component tpc = TpDup ( 1 , 2 ) ; tpc . x <== 1 ;"));
                    detail.push_str(&format!(" instantiated by `{}`", project.files[fi].defs[di].name));
                    if fi != target_fi {
                        let inc = project.files[target_fi].path.clone();
                        if !project.files[fi].includes.iter().any(|i| i.trim_start_matches("./") == inc) {
                            project.files[fi].includes.push(inc);
                        }
                    }
                }
            }
            rerender = true;
        }
        "dup-def" => {
            if p.files[target_fi].defs.is_empty() {
                return None;
            }
            let d = p.files[target_fi].defs[rng.usize(p.files[target_fi].defs.len())].clone();
            match rng.usize(3) {
                0 => {
                    project.files[target_fi].defs.push(d.clone());
                    detail = format!("`{}` twice in one file", d.name);
                }
                1 => {
                    // the same name defined again in another named file
                    let others: Vec<usize> = p.named.iter().copied().filter(|&x| x != target_fi).collect();
                    if others.is_empty() {
                        project.files[target_fi].defs.push(d.clone());
                        detail = format!("`{}` twice in one file", d.name);
                    } else {
                        let o = others[rng.usize(others.len())];
                        project.files[o].defs.push(d.clone());
                        where_ok.push(project.files[o].path.clone());
                        detail = format!("`{}` also in {}", d.name, project.files[o].path);
                    }
                }
                _ => {
                    // a function and a template with one name
                    let mut other = if d.is_template() {
                        let mut f = simple_template(&d.name, "return 1 ;");
                        f.kind = DefKind::Function;
                        f
                    } else {
                        simple_template(&d.name, "signal input x ;")
                    };
                    other.params = vec![];
                    project.files[target_fi].defs.push(other);
                    detail = format!("`{}` as function and template", d.name);
                }
            }
            rerender = true;
        }
        "included:broken-template-used-anonymously" => {
            // the failure sits in a file that is only included (nothing has to be reported for
            // it), but a template of a named file instantiates the broken template anonymously:
            // that named template must still be analysed
            let included: Vec<usize> = (0..p.files.len()).filter(|fi| !p.named.contains(fi)).collect();
            if included.is_empty() || templates_in_target.is_empty() {
                return None;
            }
            let inc = included[rng.usize(included.len())];
            let inc_path = project.files[inc].path.clone();
            let mut broken = simple_template("TpBroken", "signal input x ; signal output y ; var ( p , q ) = ( 1 , 2 , 3 ) ; y <== x ;");
            broken.inputs = vec![gen::Port { name: "x".into(), dims: vec![] }];
            broken.outputs = vec![gen::Port { name: "y".into(), dims: vec![] }];
            project.files[inc].defs.push(broken);
            if !project.files[target_fi].includes.iter().any(|i| i.trim_start_matches("./") == inc_path) {
                project.files[target_fi].includes.push(inc_path.clone());
            }
            let di = templates_in_target[rng.usize(templates_in_target.len())];
            project.files[target_fi].defs[di].body.push(raw("signal tpbz <== TpBroken ( ) ( 1 ) ;"));
            detail = format!("TpBroken in (included only) {inc_path}, used by `{}`", project.files[target_fi].defs[di].name);
            rerender = true;
        }
        "main:second-main-in-included-file" => {
            // a leftover main in a file that is only included
            let included: Vec<usize> = (0..p.files.len()).filter(|fi| !p.named.contains(fi)).collect();
            if included.is_empty() {
                return None;
            }
            let t = all_templates.first()?.clone();
            let args = (0..t.params.len()).map(|_| gen::Expr::Num("1".into())).collect::<Vec<_>>();
            let inc = included[rng.usize(included.len())];
            // the named target must (transitively) reach it: include it directly
            let inc_path = project.files[inc].path.clone();
            if !project.files[target_fi].includes.iter().any(|i| i.trim_start_matches("./") == inc_path) {
                project.files[target_fi].includes.push(inc_path.clone());
            }
            for f in project.files.iter_mut() {
                f.main = None;
            }
            project.files[target_fi].main = Some(MainDecl { public: vec![], template: t.name.clone(), args: args.clone() });
            project.files[inc].main = Some(MainDecl { public: vec![], template: t.name.clone(), args });
            where_ok.push(inc_path.clone());
            detail = format!("mains in {} and (included only) {}", target, inc_path);
            rerender = true;
        }
        "main:two-main-components" => {
            if p.named.len() < 2 {
                return None;
            }
            let t = all_templates.first()?.clone();
            let args = (0..t.params.len()).map(|_| gen::Expr::Num("1".into())).collect::<Vec<_>>();
            let mut n = 0;
            for &fi in &p.named {
                if n < 2 {
                    project.files[fi].main = Some(MainDecl { public: vec![], template: t.name.clone(), args: args.clone() });
                    where_ok.push(project.files[fi].path.clone());
                    n += 1;
                }
            }
            for (fi, f) in project.files.iter_mut().enumerate() {
                if !p.named.contains(&fi) {
                    f.main = None;
                }
            }
            rerender = true;
        }
        _ => return None,
    }
    let mut layout = None;
    if rerender {
        case.world = render_world(&project, &b.style, b.style_seed);
        layout = Some(render_layout(&project, &b.style, b.style_seed));
    } else if case.world == b.case.world {
        // the disk is untouched (seam faults only): the base layout still holds
        layout = Some(render_layout(&b.project, &b.style, b.style_seed));
    }
    let defs = planted_defs(&project);
    Some(Planted { class, detail, case, where_ok, defs, named, layout })
}

fn planted_defs(p: &Project) -> Vec<(String, String)> {
    p.named_defs()
}

fn error_set(ms: &[NF]) -> Vec<NF> {
    ms.iter().filter(|n| n.severity == "error").cloned().collect()
}

fn multiset_minus(a: &[NF], b: &[NF]) -> Vec<NF> {
    let mut rest: Vec<NF> = b.to_vec();
    let mut out = Vec::new();
    for x in a {
        if let Some(pos) = rest.iter().position(|y| y == x) {
            rest.remove(pos);
        } else {
            out.push(x.clone());
        }
    }
    out
}

/// Converse clause: a clean verdict needs every named file read to EOF and
/// every expected definition analysed.
fn clean_verdict_justified(o: &Outcome, named: &[String], defs: &[(String, String)]) -> Result<(), String> {
    let out = parse_stdout(&o.stdout);
    if !(o.exit == Exit::Code(0) && out.summary == Some(Summary::None_)) {
        return Ok(());
    }
    for n in named {
        let opened = o.events.iter().any(|e| e.call == "open" && rel_path(&e.path).ends_with(n.as_str()) && e.result_num().map(|v| v >= 0).unwrap_or(false));
        let eof = o.events.iter().any(|e| e.call == "read" && rel_path(&e.path).ends_with(n.as_str()) && e.result == "0");
        let err = o.events.iter().any(|e| (e.call == "read" || e.call == "open") && rel_path(&e.path).ends_with(n.as_str()) && e.result_num().map(|v| v < 0).unwrap_or(false));
        if !opened || !eof || err {
            return Err(format!("`No issues found.` although `{n}` was not read completely (opened={opened} eof={eof} error={err})"));
        }
    }
    for (kind, name) in defs {
        let want = defs.iter().filter(|(k, n)| k == kind && n == name).count();
        let got = out.analyzing.iter().filter(|(k, n)| k == kind && n == name).count();
        if got < want {
            return Err(format!("`No issues found.` although {kind} `{name}` is defined {want} time(s) in the named files and was analysed {got} time(s)"));
        }
    }
    Ok(())
}

/// No definition of a named file is dropped without a word: it is analysed, or an
/// error-level report without location or located in its file is displayed.
fn no_silent_drop(o: &Outcome, world: &World, layout: &gen::Layout, named: &[String], defs: &[(String, String)]) -> Result<(), String> {
    let out = parse_stdout(&o.stdout);
    let errors: Vec<Option<String>> = crate::findings::with_positions(&out, world)
        .into_iter()
        .filter(|n| n.severity == "error")
        .map(|n| n.first.map(|(p, _)| p))
        .collect();
    if errors.iter().any(|e| e.is_none()) {
        return Ok(()); // a file-level failure was reported
    }
    for (kind, name) in defs {
        let want = defs.iter().filter(|(k, n)| k == kind && n == name).count();
        let got = out.analyzing.iter().filter(|(k, n)| k == kind && n == name).count();
        if got >= want {
            continue;
        }
        // which named file holds it?
        let file = named.iter().find(|f| layout.defs.get(*f).map(|v| v.iter().any(|d| &d.0 == kind && &d.1 == name)).unwrap_or(false));
        // (a report may carry several labels, in several files)
        let mentioned = |f: &str| out.diags.iter().filter(|d| d.severity == "error").any(|d| d.locs.iter().any(|l| crate::findings::rel_path(&l.path).ends_with(f)));
        let excused = match file {
            Some(f) => errors.iter().flatten().any(|p| p.ends_with(f.as_str())) || mentioned(f.as_str()),
            None => true,
        };
        if !excused {
            return Err(format!("{kind} `{name}` of a named file was analysed {got} time(s) (defined {want} time(s)) and no error-level report mentions its file"));
        }
    }
    Ok(())
}

struct Res {
    runs: usize,
    planted: Vec<(&'static str, bool)>, // class, fault observed to fire (where applicable)
    violations: Vec<(String, String, Value)>,
    skipped_crash: usize,
    harness_err: Option<String>,
    fps: Vec<u64>,
    sim_ns: i64,
    sarif_faults_fired: usize,
    stdout_dead_runs: usize,
}

fn judge_planted(twin: &Outcome, twin_world: &World, pl: &Planted, o: &Outcome) -> Option<(String, String)> {
    let cls = pl.class;
    let out = parse_stdout(&o.stdout);
    let m_f = multiset_with_pos(&out, &pl.case.world);
    let m_t = multiset_with_pos(&parse_stdout(&twin.stdout), twin_world);
    let strip = |v: &[NF]| -> Vec<NF> {
        v.iter()
            .map(|n| {
                let mut n = n.clone();
                n.first = None;
                n
            })
            .collect()
    };
    let new_errors_pos: Vec<NF> = {
        // errors of the faulted run that the twin does not show (compared without positions)
        let ef = error_set(&m_f);
        let et = strip(&error_set(&m_t));
        let mut rest = et;
        let mut outv = Vec::new();
        for x in ef {
            let mut k = x.clone();
            k.first = None;
            if let Some(p) = rest.iter().position(|y| *y == k) {
                rest.remove(p);
            } else {
                outv.push(x);
            }
        }
        outv
    };
    let exit_nonzero = !matches!(o.exit, Exit::Code(0));
    if !exit_nonzero {
        let summary = format!("{:?}", out.summary);
        return Some((format!("silent:{cls}"), format!("exit status 0 ({summary}) with planted failure {cls} {}", pl.detail)));
    }
    if new_errors_pos.is_empty() {
        let shown: Vec<String> = m_f.iter().map(describe).take(4).collect();
        return Some((
            format!("no-error-report:{cls}"),
            format!("non-zero exit but no error-level report that the fault-free twin does not also show ({cls} {}); displayed: {shown:?}", pl.detail),
        ));
    }
    // attribution: some new error is unlocated or located in the planted file
    let ok = new_errors_pos.iter().any(|n| match &n.first {
        None => true,
        Some((path, _)) => pl.where_ok.iter().any(|w| path.ends_with(w.as_str())),
    });
    if !ok {
        return Some((
            format!("misattributed:{cls}"),
            format!("new error(s) are located outside {:?}: {}", pl.where_ok, new_errors_pos.iter().map(describe).collect::<Vec<_>>().join(" | ")),
        ));
    }
    None
}

fn multiset_with_pos(out: &crate::outparse::Stdout, world: &World) -> Vec<NF> {
    crate::findings::with_positions(out, world)
}

fn one(runner: &Runner, seed: u64, i: usize, per_project: usize, sweep_class: Option<&'static str>) -> Res {
    let mut res = Res { runs: 0, planted: vec![], violations: vec![], skipped_crash: 0, harness_err: None, fps: vec![], sim_ns: 0, sarif_faults_fired: 0, stdout_dead_runs: 0 };
    let mut b = build_base(seed, i);
    let twin = match runner.run(&b.case) {
        Ok(o) => o,
        Err(e) => {
            res.harness_err = Some(e);
            return res;
        }
    };
    res.runs += 1;
    res.sim_ns += twin.sim_ns();
    if crashed(&twin) {
        res.skipped_crash += 1;
        return res;
    }
    b.twin_displayed = parse_stdout(&twin.stdout).diags.len();
    // converse clause on the fault-free run as well
    if let Err(msg) = clean_verdict_justified(&twin, &b.project.named_paths(), &b.project.named_defs()) {
        res.violations.push((
            "unjustified-clean:no-fault".into(),
            msg,
            json!({"kind": "C02", "class": "none", "seed": seed, "index": i, "case": b.case, "twin": b.case}),
        ));
    }
    {
        let layout = render_layout(&b.project, &b.style, b.style_seed);
        if let Err(msg) = no_silent_drop(&twin, &b.case.world, &layout, &b.project.named_paths(), &b.project.named_defs()) {
            res.violations.push((
                "silently-dropped-definition:no-fault".into(),
                msg,
                json!({"kind": "C02", "class": "none", "seed": seed, "index": i, "case": b.case, "twin": b.case}),
            ));
        }
    }
    let mut r = Rng::new(seed).sub_n("C02-plant", i as u64);
    for k in 0..per_project {
        let class = match sweep_class {
            Some(c) => c,
            None => CLASSES[(i * per_project + k + r.usize(CLASSES.len())) % CLASSES.len()],
        };
        let Some(mut pl) = plant(&b, class, &mut r) else { continue };
        // the failing named file also exists, byte for byte, as a vendored copy that another
        // named file includes (and that is parsed first): the named one is still a named one
        let in_content = ["syntax:", "tuple:", "anon:in-function", "anon:wrong", "anon:unknown", "anon:surplus", "params:", "pragma:", "torn:"].iter().any(|p| class.starts_with(p));
        if in_content && r.chance(1, 6) {
            let target = pl.where_ok.first().cloned().unwrap_or_default();
            if let Some(body) = pl.case.world.files.get(&target).cloned() {
                if pl.case.argv.iter().any(|a| a == &target) && !target.contains('/') {
                    let copy = format!("vendor/{target}");
                    pl.case.world.files.insert(copy.clone(), body);
                    pl.case.world.put("zz_holder.circom", &format!("pragma circom 2.0.0;\ninclude \"{copy}\";\n"));
                    pl.case.argv.push("zz_holder.circom".into());
                    pl.named.push("zz_holder.circom".into());
                    pl.where_ok.push(copy);
                    pl.where_ok.push("zz_holder.circom".into());
                    pl.detail.push_str(" [with a byte-identical vendored copy included by a file parsed earlier]");
                }
            }
        }
        // a second named file whose name differs from the failing one's in letter case only,
        // given after it (so parsed before it)
        if in_content && r.chance(1, 8) {
            let target = pl.where_ok.first().cloned().unwrap_or_default();
            if pl.case.argv.iter().any(|a| a == &target) && !target.contains('/') {
                let twin: String = target.chars().enumerate().map(|(k, c)| if k == 0 { if c.is_uppercase() { c.to_lowercase().next().unwrap_or(c) } else { c.to_uppercase().next().unwrap_or(c) } } else { c }).collect();
                if twin != target && !pl.case.world.files.contains_key(&twin) {
                    pl.case.world.put(&twin, "pragma circom 2.0.0;\ntemplate CaseTwinQ() { signal input a; signal output b; b <== a; }\n");
                    pl.case.argv.push(twin.clone());
                    pl.named.push(twin.clone());
                    pl.where_ok.push(twin);
                    pl.detail.push_str(" [next to a named file whose name differs in case only]");
                }
            }
        }
        // stdout itself may be dead (full disk, reader gone). Nothing can be displayed then,
        // but the exit status is still there to say that the input was not analysed
        let stdout_dead = r.chance(1, 12) && pl.case.plan.faults.is_empty();
        if stdout_dead {
            pl.case.plan.stdout_errno = *r.pick(&[libc::ENOSPC, libc::EIO, libc::EPIPE]);
        }
        let o = match runner.run(&pl.case) {
            Ok(o) => o,
            Err(e) => {
                res.harness_err = Some(e);
                return res;
            }
        };
        res.runs += 1;
        res.sim_ns += o.sim_ns();
        if stdout_dead {
            res.stdout_dead_runs += 1;
            if matches!(o.exit, crate::procrun::Exit::Code(0)) {
                res.violations.push((
                    format!("silent:stdout-fails:{class}"),
                    format!("exit status 0 with planted failure {class} {} while every write to stdout fails", pl.detail),
                    json!({"kind": "C02", "class": class, "detail": pl.detail, "seed": seed, "index": i, "case": pl.case, "twin": b.case,
                           "where_ok": pl.where_ok, "named": pl.named, "defs": pl.defs}),
                ));
            }
            continue;
        }
        if crashed(&o) {
            res.skipped_crash += 1;
            continue;
        }
        // did the seam fault fire?
        let planted_faults: Vec<&Fault> = pl.case.plan.faults.iter().filter(|f| f.suffix != "out.sarif").collect();
        let fired = if planted_faults.is_empty() {
            true
        } else {
            o.events.iter().any(|e| {
                planted_faults.iter().any(|f| {
                    (f.call == e.call && e.path.ends_with(&f.suffix) && e.result_num().map(|v| v < 0).unwrap_or(false))
                        || (f.errno == -2 && e.call == "vanish" && e.path.ends_with(&f.suffix))
                })
            })
        };
        if o.events.iter().any(|e| (e.call == "create" || e.call == "write") && e.path.ends_with("out.sarif") && e.result_num().map(|v| v < 0).unwrap_or(false)) {
            res.sarif_faults_fired += 1;
        }
        res.planted.push((class, fired));
        res.fps.push(hash_str(&serde_json::to_string(&pl.case).unwrap_or_default()));
        if !fired {
            // e.g. the read fault index lies beyond EOF: nothing was injected, nothing to judge
            continue;
        }
        // a duplicate definition is not in the property's list of failures that must be
        // reported; it is judged by the converse clause only (a clean verdict although
        // one of the two definitions was never analysed)
        let mut verdict = if class == "dup-def" || class == "included:broken-template-used-anonymously" { None } else { judge_planted(&twin, &b.case.world, &pl, &o) };
        if verdict.is_none() {
            if let Err(msg) = clean_verdict_justified(&o, &pl.named, &pl.defs) {
                verdict = Some((format!("unjustified-clean:{class}"), msg));
            }
        }
        if verdict.is_none() {
            if let Some(layout) = &pl.layout {
                if let Err(msg) = no_silent_drop(&o, &pl.case.world, layout, &pl.named, &pl.defs) {
                    verdict = Some((format!("silently-dropped-definition:{class}"), msg));
                }
            }
        }
        if let Some((sig, detail)) = verdict {
            res.violations.push((
                sig,
                detail,
                json!({"kind": "C02", "class": class, "detail": pl.detail, "seed": seed, "index": i, "case": pl.case, "twin": b.case,
                       "where_ok": pl.where_ok, "named": pl.named, "defs": pl.defs}),
            ));
        }
    }
    res
}

pub fn run(env: &Env) -> i32 {
    let t0 = Instant::now();
    let (n, per_project) = if env.quick() { (2500, 6) } else { (40_000, 12) };
    let n = std::env::var("VERIF_RUNS").ok().and_then(|s| s.parse().ok()).unwrap_or(n);
    let seed = env.seed;
    let results: Vec<Res> = env.par_map(n, |runner, i| one(runner, seed, i, per_project, None));
    if let Some(r) = results.iter().find(|r| r.harness_err.is_some()) {
        harness_error(&format!("C02: {}", r.harness_err.clone().unwrap()));
    }
    let mut seen = BTreeSet::new();
    let mut violations = Vec::new();
    for r in &results {
        for (sig, detail, replay) in &r.violations {
            if seen.insert(sig.clone()) {
                violations.push(Violation { property: "C02".into(), signature: sig.clone(), detail: detail.clone(), replay: replay.clone() });
            }
        }
    }
    // minimise new (unlisted) violations on the planted case while the signature persists
    let known = crate::report::KnownFindings::load();
    let runner = Runner::new(&env.bin, &env.shim, &env.scratch, 99);
    for v in violations.iter_mut() {
        if known.matches(v).is_some() || std::env::var("VERIF_NOMIN").is_ok() {
            continue;
        }
        let Ok(case) = serde_json::from_value::<Case>(v.replay["case"].clone()) else { continue };
        let Ok(twin) = serde_json::from_value::<Case>(v.replay["twin"].clone()) else { continue };
        let sig = v.signature.clone();
        if !sig.starts_with("silent:") {
            continue;
        }
        // silent: exit 0 on the planted case; shrink the planted case alone
        let mut fails = |c: &Case| -> bool {
            match runner.run(c) {
                Ok(o) => !crashed(&o) && o.exit == Exit::Code(0),
                Err(_) => false,
            }
        };
        let _ = twin;
        if fails(&case) {
            let keep_faults = case.plan.faults.clone();
            let small = crate::minimise::minimise_case(&case, &mut |c: &Case| c.plan.faults == keep_faults && fails(c), 300);
            v.replay["case"] = json!(small);
        }
    }
    let wall = t0.elapsed().as_secs_f64();
    let runs: usize = results.iter().map(|r| r.runs).sum();
    let mut per_class: BTreeMap<&str, (usize, usize)> = BTreeMap::new();
    for r in &results {
        for (c, fired) in &r.planted {
            let e = per_class.entry(c).or_default();
            e.0 += 1;
            if *fired {
                e.1 += 1;
            }
        }
    }
    let distinct: BTreeSet<u64> = results.iter().flat_map(|r| r.fps.iter().copied()).collect();
    let mut cov: BTreeMap<String, Value> = BTreeMap::new();
    let b0 = build_base(seed, 0);
    let mut r0 = Rng::new(seed).sub_n("C02-plant", 0);
    let sample = plant(&b0, "syntax:bracket-deleted", &mut r0).map(|p| json!({"class": p.class, "detail": p.detail, "argv": p.case.argv, "plan": p.case.plan, "files": p.case.world.files}));
    cov.insert("evaluations".into(), json!(runs));
    cov.insert("projects".into(), json!(n));
    cov.insert("distinct_nontrivial".into(), json!(distinct.len()));
    cov.insert("rule".into(), json!("one evaluation = one child run of the real binary; every faulted run carries exactly one planted failure (class x position) and is judged against its fault-free twin; distinct by hash of (files, argv, plan) of the faulted case; a faulted case is non-trivial iff the planted fault actually fired"));
    cov.insert("samples".into(), json!([sample]));
    cov.insert("planted_per_class".into(), json!(per_class.iter().map(|(k, v)| (k.to_string(), json!({"planted": v.0, "fired": v.1}))).collect::<BTreeMap<_, _>>()));
    cov.insert("classes".into(), json!(CLASSES));
    {
        let mut probes: Vec<(&str, usize)> = CLASSES.iter().map(|c| (*c, per_class.get(c).map(|v| v.1).unwrap_or(0))).collect();
        probes.push(("sarif-write-fault-next-to-a-planted-failure", results.iter().map(|r| r.sarif_faults_fired).sum::<usize>()));
        crate::report::add_probes(&mut cov, &probes);
        let fired: BTreeMap<String, usize> = probes.iter().map(|(k, v)| (k.to_string(), *v)).collect();
        cov.insert("fault_kinds_fired".into(), json!(fired));
    }
    cov.insert("runs_with_sarif_write_fault_fired".into(), json!(results.iter().map(|r| r.sarif_faults_fired).sum::<usize>()));
    cov.insert("runs_skipped_because_crashed".into(), json!(results.iter().map(|r| r.skipped_crash).sum::<usize>()));
    cov.insert("simulated_seconds".into(), json!(results.iter().map(|r| r.sim_ns as i128).sum::<i128>() as f64 / 1e9));
    cov.insert("runs_per_hour".into(), json!((runs as f64 / wall * 3600.0) as u64));
    cov.insert("components".into(), json!({"real": ["circomspect binary", "std", "tmpfs"], "simulated": ["getrandom", "clock_gettime"], "fault_injected": ["realpath", "open64", "read"], "stubbed": []}));
    Evidence {
        property: "C02".into(),
        tier: env.tier.clone(),
        seed,
        level: "fault_enumeration".into(),
        coverage: cov,
        assumptions: vec![
            "'saying so' is judged by attribution: the faulted run shows an error-level report its fault-free twin does not, located (if located) in the file the failure was planted in".into(),
            "syntactic faults are restricted to edits that are certainly ungrammatical (invalid character, unbalanced bracket, truncation inside a definition body)".into(),
        ],
        wall_s: wall,
        violations: violations.len(),
    }
    .write();
    let reproduce = |v: &Value| -> Option<String> {
        // the stored case of a listed finding is judged by the clauses that need no twin
        let case: Case = serde_json::from_value(v["case"].clone()).ok()?;
        let named: Vec<String> = serde_json::from_value(v["named"].clone()).unwrap_or_default();
        let defs: Vec<(String, String)> = serde_json::from_value(v["defs"].clone()).unwrap_or_default();
        let class = v["class"].as_str().unwrap_or("none").to_string();
        let o = runner.run(&case).ok()?;
        if crashed(&o) {
            return None;
        }
        if clean_verdict_justified(&o, &named, &defs).is_err() {
            return Some(format!("unjustified-clean:{class}"));
        }
        // the drop invariant needs the layout: re-plant from (seed, index) is not possible for a
        // stored case, so approximate by counting the analysing lines per (kind, name)
        let out = parse_stdout(&o.stdout);
        let no_error = !out.diags.iter().any(|d| d.severity == "error");
        for (kind, name) in &defs {
            let want = defs.iter().filter(|(k, n)| k == kind && n == name).count();
            let got = out.analyzing.iter().filter(|(k, n)| k == kind && n == name).count();
            if got < want && no_error {
                return Some(format!("silently-dropped-definition:{class}"));
            }
        }
        None
    };
    crate::report::conclude_with("C02", &violations, Some(&reproduce))
}

pub fn replay(env: &Env, v: &Value) -> i32 {
    let case: Case = serde_json::from_value(v["case"].clone()).unwrap_or_else(|e| harness_error(&format!("replay: {e}")));
    let twin: Case = serde_json::from_value(v["twin"].clone()).unwrap_or_else(|e| harness_error(&format!("replay: {e}")));
    let runner = Runner::new(&env.bin, &env.shim, &env.scratch, 0);
    let ot = runner.run(&twin).unwrap_or_else(|e| harness_error(&e));
    let o = runner.run(&case).unwrap_or_else(|e| harness_error(&e));
    let class = v["class"].as_str().unwrap_or("?");
    println!("class: {class} {}", v["detail"]);
    println!("--- faulted run: exit={:?}\n{}", o.exit, o.stdout);
    let where_ok: Vec<String> = serde_json::from_value(v["where_ok"].clone()).unwrap_or_default();
    let named: Vec<String> = serde_json::from_value(v["named"].clone()).unwrap_or_default();
    let defs: Vec<(String, String)> = serde_json::from_value(v["defs"].clone()).unwrap_or_default();
    let cls: &'static str = CLASSES.iter().copied().find(|c| *c == class).unwrap_or("none");
    let pl = Planted { class: cls, detail: String::new(), case: case.clone(), where_ok, defs, named, layout: None };
    let mut verdict = if cls == "none" || cls == "dup-def" || cls == "included:broken-template-used-anonymously" { None } else { judge_planted(&ot, &twin.world, &pl, &o) };
    if verdict.is_none() {
        if let Err(m) = clean_verdict_justified(&o, &pl.named, &pl.defs) {
            verdict = Some(("unjustified-clean".into(), m));
        }
    }
    match verdict {
        Some((sig, detail)) => {
            println!("{sig}: {detail}");
            println!("VIOLATION property=C02 replay=(replayed)");
            1
        }
        None => {
            println!("replay: no violation");
            0
        }
    }
}
