//! C01 Totality: whatever the disk delivers, whatever the clock does and
//! whatever the hash order is, the tool ends by itself with status 0 or 1 and
//! a summary line.

use crate::common::*;
use crate::driver::{harness_error, Env};
use crate::gen::{self, Knobs, ProjectShape, Style};
use crate::minimise::minimise_case;
use crate::outparse::parse_stdout;
use crate::procrun::{Exit, Outcome, Runner};
use crate::report::{conclude, Evidence, Violation};
use crate::rng::{hash_str, Rng};
use crate::world::{Case, Fault, World};
use serde_json::{json, Value};
use std::collections::{BTreeMap, BTreeSet};
use std::time::Instant;

pub struct Built {
    pub case: Case,
    pub mode: &'static str,
    pub configured: Vec<String>,
}

fn hostile_world(rng: &mut Rng) -> (World, &'static str) {
    let mut w = World::default();
    let which = rng.usize(27);
    let label: &'static str;
    let text: String = match which {
        0 => {
            label = "deep-parens";
            let d = 50 + rng.usize(3000);
            format!(
                "pragma circom 2.0.0;\nfunction f(a) {{\n  return {}a{};\n}}\n",
                "(".repeat(d),
                ")".repeat(d)
            )
        }
        1 => {
            label = "deep-blocks";
            let d = 50 + rng.usize(2500);
            format!("pragma circom 2.0.0;\ntemplate T() {{\n  var x = 0;\n{} x = 1; {}\n}}\n", "{".repeat(d), "}".repeat(d))
        }
        2 => {
            label = "unary-chain";
            let d = 50 + rng.usize(2500);
            let mut s = String::from("pragma circom 2.0.0;\nfunction f(a) {\n  return ");
            for _ in 0..d {
                s.push_str("-(");
            }
            s.push('a');
            s.push_str(&")".repeat(d));
            s.push_str(";\n}\n");
            s
        }
        3 => {
            label = "long-chain";
            // memory use is quadratic in the chain length (known finding); the long
            // variant deterministically exceeds the address-space limit
            let d = if rng.chance(1, 16) { 2200 + rng.usize(300) } else { 50 + rng.usize(950) };
            let mut s = String::from("pragma circom 2.0.0;\ntemplate T() {\n  signal input a;\n  signal output b;\n  b <== a");
            let ops = [" + ", " * ", " - "];
            for i in 0..d {
                s.push_str(ops[i % 3]);
                s.push_str(if i % 2 == 0 { "a" } else { "3" });
            }
            s.push_str(";\n}\n");
            s
        }
        4 => {
            label = "huge-literal";
            let digits = 80 + rng.usize(3000);
            let lit: String = (0..digits).map(|i| char::from(b'1' + ((i * 7) % 9) as u8)).collect();
            format!("pragma circom 2.0.0;\nfunction f(a) {{\n  var x = {lit};\n  var y = x * x + a;\n  return y \\ 3;\n}}\n")
        }
        5 => {
            label = "hex-literals";
            let lits = ["0x", "0x0", "0xFFFFFFFFFFFFFFFFFFFFFFFFFFFFFFFFFFFFFFFFFFFFFFFFFFFFFFFFFFFFFFFFFF", "0xg", "0X10"];
            let l = *rng.pick(&lits);
            format!("pragma circom 2.0.0;\nfunction f(a) {{\n  var x = {l};\n  return x + a;\n}}\n")
        }
        6 => {
            label = "huge-shift-or-pow";
            let ops = ["<<", ">>", "**"];
            let big = ["100000000000", "18446744073709551616", "340282366920938463463374607431768211456", "4294967296", "65536", "1000000"];
            let op = *rng.pick(&ops);
            let b = *rng.pick(&big);
            let base = *rng.pick(&["2", "1", "0", "3", "21888242871839275222246405745257275088548364400416034343698204186575808495616"]);
            format!("pragma circom 2.0.0;\nfunction f(a) {{\n  var x = {base} {op} {b};\n  return x + a;\n}}\n")
        }
        7 => {
            label = "division-by-zero-ops";
            let ops = ["/", "\\", "%"];
            let op = *rng.pick(&ops);
            let z = *rng.pick(&["0", "(1 - 1)", "21888242871839275222246405745257275088548364400416034343698204186575808495617"]);
            format!("pragma circom 2.0.0;\ntemplate T() {{\n  signal input a;\n  signal output b;\n  var x = 5 {op} {z};\n  b <== a + x;\n}}\n")
        }
        8 => {
            label = "version-overflow";
            let v = *rng.pick(&[
                "99999999999999999999999.0.0",
                "2.99999999999999999999999.0",
                "2.0.18446744073709551616",
                "18446744073709551615.18446744073709551615.18446744073709551615",
                "0.0.0",
            ]);
            format!("pragma circom {v};\ntemplate T() {{\n  signal input a;\n}}\n")
        }
        9 => {
            label = "empty-or-comments-only";
            rng.pick(&["", "\n", "// only a comment", "/* block */", "/* open", "/", "/*", "*/", "//", "\u{feff}"]).to_string()
        }
        10 => {
            label = "nul-and-binary";
            let mut s = String::from("pragma circom 2.0.0;\ntemplate T() {\n  signal input a;\n");
            s.push('\0');
            s.push_str("\n}\n");
            s
        }
        11 => {
            label = "signal-two-constants";
            let (a, b) = (rng.usize(3), rng.usize(3));
            format!(
                "pragma circom 2.0.0;\ntemplate T(n) {{\n  signal input in;\n  signal output out;\n  if (n == 0) {{\n    out <== {a};\n  }} else {{\n    out <== {b};\n  }}\n}}\n"
            )
        }
        12 => {
            label = "many-args-and-dims";
            let n = 10 + rng.usize(200);
            let params: Vec<String> = (0..n).map(|i| format!("p{i}")).collect();
            let dims: String = (0..(1 + rng.usize(40))).map(|_| "[2]".to_string()).collect();
            format!("pragma circom 2.0.0;\ntemplate T({}) {{\n  signal input a{dims};\n  var v{dims};\n}}\n", params.join(", "))
        }
        13 => {
            label = "odd-main";
            let m = *rng.pick(&[
                "component main = T();",
                "component main {public [a, a, zz]} = T();",
                "component main = T()(1);",
                "component main = f(1);",
                "component main = 1 + 2;",
                "component main = U(1, 2, 3);",
                "component main = T;",
            ]);
            format!("pragma circom 2.0.0;\ntemplate T() {{\n  signal input a;\n  signal output b;\n  b <== a;\n}}\n{m}\n")
        }
        14 => {
            label = "odd-statements";
            let st = *rng.pick(&[
                "a.b.c <== 1;",
                "x[0][1][2] = 3;",
                "(a, b) <== (1, 2, 3);",
                "_ <== a;",
                "a <== _;",
                "var (p, q) = f(1);",
                "component c[2] = T();",
                "T()(a);",
                "log(T()(a));",
                "assert((1, 2));",
                "a === (1, 2);",
                "x++ ;",
                "return 1;",
                "signal input z[a];",
                "var q[0];",
                "1 ==> a;",
                "out <-- in ? 1 : 0;",
                "for (i = 0; i < 2; i++) { }",
                "while (1) { }",
                "if (1) a <== 1; else a <== 2;",
                "var t = [1, [2, 3]];",
                "var t = f(f(f(1)));",
                "parallel T()(a);",
                "b <== parallel T()(a);",
                "c.in <== 1;",
                "var x; x[1].y = 2;",
                "signal s; s.t <== 1;",
                "var u = T();",
                "component k = T(); k <== 1;",
            ]);
            format!(
                "pragma circom 2.0.0;\nfunction f(n) {{ return n; }}\ntemplate T() {{\n  signal input a;\n  signal output b;\n  var x;\n  {st}\n}}\n"
            )
        }
        15 => {
            label = "many-reports";
            // many definitions that each draw a parse-stage error, plus reports without a
            // location (failing include is located; missing pragma and unreadable file are not)
            let n = 21 + rng.usize(40);
            let mut s = String::from("include \"nonexistent_a.circom\";\ninclude \"lib_without_pragma.circom\";\n");
            for k in 0..n {
                let body = match rng.usize(3) {
                    0 => format!("signal output o; o <== NoSuchTemplate{k}()(a);"),
                    1 => "var (p, q) = (1, 2, 3);".to_string(),
                    _ => "signal output o; o <== a;".to_string(),
                };
                s.push_str(&format!("template T{k}() {{ signal input a; {body} }}\n"));
            }
            w.put("lib_without_pragma.circom", "template L() { signal input a; }\n");
            s
        }
        16 => {
            label = "directory-symlink-loop";
            // a directory input that contains a symlink to an ancestor
            w.put("src/adder.circom", "pragma circom 2.0.0;\ntemplate Adder() { signal input a; signal output b; b <== a + 1; }\n");
            let (link, target) = *rng.pick(&[("src/parent", ".."), ("src/self", "."), ("src/up", "../src"), ("loop", ".")]);
            w.symlinks.insert(link.to_string(), target.to_string());
            "pragma circom 2.0.0;\ntemplate T() { signal input a; }\n".to_string()
        }
        19 => {
            label = "long-else-if-chain";
            // nesting beyond roughly a thousand levels overflows the stack (known finding)
            let n = if rng.chance(1, 10) { 1300 + rng.usize(200) } else { 50 + rng.usize(650) };
            let mut s = String::from("pragma circom 2.0.0;\nfunction f(a) {\n  var r = 0;\n");
            for k in 0..n {
                s.push_str(&format!("  {}if (a == {k}) {{ r = {k}; }}\n", if k == 0 { "" } else { "else " }));
            }
            s.push_str("  return r;\n}\n");
            s
        }
        20 => {
            label = "many-statements";
            // value propagation restarts after every change: time is quadratic in the number of
            // statements (1000 statements take 4 s); sized to stay far below the CPU limit
            let n = 100 + rng.usize(700);
            let mut s = String::from("pragma circom 2.0.0;\ntemplate T() {\n  signal input a;\n  signal output b;\n  var x = 0;\n");
            for k in 0..n {
                s.push_str(&format!("  x = x + {};\n", k % 7));
            }
            s.push_str("  b <== a + x;\n}\n");
            s
        }
        21 => {
            label = "deep-calls-and-arrays";
            let d = 50 + rng.usize(1500);
            let (open, close) = if rng.chance(1, 2) { ("f(", ")") } else { ("[", "]") };
            format!("pragma circom 2.0.0;\nfunction f(a) {{\n  var x = {}a{};\n  return 1;\n}}\n", open.repeat(d), close.repeat(d))
        }
        22 => {
            label = "many-definitions";
            let n = 100 + rng.usize(700);
            let mut s = String::from("pragma circom 2.0.0;\n");
            for k in 0..n {
                s.push_str(&format!("template T{k}() {{ signal input a; signal output b; b <== a * {}; }}\n", k % 5));
            }
            s
        }
        23 => {
            label = "nested-loops-and-branches";
            // time grows with the fourth power of the nesting depth (120 levels take 15 s)
            let d = 10 + rng.usize(50);
            let mut s = String::from("pragma circom 2.0.0;\nfunction f(a) {\n  var x = a;\n");
            for k in 0..d {
                if k % 2 == 0 {
                    s.push_str(&format!("  for (var i{k} = 0; i{k} < 2; i{k}++) {{\n"));
                } else {
                    s.push_str("  if (x > 1) {\n");
                }
            }
            s.push_str("  x = x + 1;\n");
            s.push_str(&"  }\n".repeat(d));
            s.push_str("  return x;\n}\n");
            s
        }
        25 => {
            label = "nested-anonymous-components";
            // anonymous components nested in input position
            let d = 4 + rng.usize(36);
            let named = rng.chance(1, 3);
            let mut e = String::from("a");
            for _ in 0..d {
                e = if named { format!("Id()(x <== {e})") } else { format!("Id()({e})") };
            }
            format!("pragma circom 2.1.0;\ntemplate Id() {{\n  signal input x;\n  signal output y;\n  y <== x;\n}}\ntemplate T() {{\n  signal input a;\n  signal output b;\n  b <== {e};\n}}\n")
        }
        26 => {
            label = "signal-chain";
            // a straight-line chain of signals, each computed from the one before
            let n = 20 + rng.usize(230);
            let mut s = String::from("pragma circom 2.0.0;\ntemplate T() {\n  signal input a;\n  signal output b;\n");
            for k in 0..n {
                s.push_str(&format!("  signal s{k};\n"));
            }
            s.push_str("  s0 <== a * a;\n");
            for k in 1..n {
                s.push_str(&format!("  s{k} <== s{} * a;\n", k - 1));
            }
            s.push_str(&format!("  b <== s{};\n}}\n", n - 1));
            s
        }
        17 => {
            label = "token-soup";
            // a random sequence over the language's vocabulary: almost never grammatical, but
            // every prefix the parser accepts reaches the actions behind it
            let vocab = [
                "pragma circom", "2.0.0", ";", "include", "\"a.circom\"", "template", "function", "custom", "parallel", "component", "main", "public",
                "signal", "input", "output", "var", "if", "else", "for", "while", "return", "assert", "log", "(", ")", "{", "}", "[", "]", ",", ".",
                "=", "<==", "==>", "<--", "-->", "===", "+", "-", "*", "/", "\\", "%", "**", "<<", ">>", "&", "|", "^", "~", "!", "&&", "||", "==",
                "!=", "<", ">", "<=", ">=", "?", ":", "++", "--", "+=", "-=", "*=", "**=", "<<=", "_", "x", "y", "T", "f", "in", "out", "0", "1",
                "255", "0x10", "0x", "21888242871839275222246405745257275088548364400416034343698204186575808495617", "/*", "*/", "//", "\n",
            ];
            let n = 5 + rng.usize(400);
            let mut s = String::new();
            if rng.chance(1, 2) {
                s.push_str("pragma circom 2.0.0;\ntemplate T() {\n");
            }
            for _ in 0..n {
                s.push_str(vocab[rng.usize(vocab.len())]);
                s.push(' ');
            }
            if rng.chance(1, 2) {
                s.push_str("\n}\n");
            }
            s
        }
        18 => {
            label = "random-bytes";
            let n = rng.usize(600);
            let bytes: Vec<u8> = (0..n).map(|_| if rng.chance(3, 4) { b" \n;{}()[]=<>+-*/abcxyz0123456789\"_.,"[rng.usize(36)] } else { rng.below(256) as u8 }).collect();
            w.put_bytes("main.circom", &bytes);
            return (w, label);
        }
        _ => {
            label = "include-oddities";
            let inc = *rng.pick(&["", ".", "..", "/", "main.circom", "./main.circom", "nonexistent.circom", "a\nb", "\\", "//", "/dev/null", "/etc/hostname"]);
            format!("pragma circom 2.0.0;\ninclude \"{inc}\";\ntemplate T() {{\n  signal input a;\n}}\n")
        }
    };
    w.put("main.circom", &text);
    (w, label)
}

pub fn build_case(seed: u64, i: usize, thorough: bool) -> Built {
    let base = Rng::new(seed).sub_n("C01", i as u64);
    let mut r_mode = base.sub("mode");
    let mut r_proj = base.sub("project");
    let mut r_style = base.sub("style");
    let mut r_opts = base.sub("opts");
    let mut r_plan = base.sub("plan");
    let mut r_fault = base.sub("fault");

    let opts = Opts::random(&mut r_opts);
    let mut plan = quiet_plan(&mut r_plan);
    let mut configured: Vec<String> = vec!["hash-key".into(), "clock-fine".into()];
    let mode_pick = r_mode.usize(100);

    // workload
    let (project, mut world, mode): (Option<gen::Project>, World, &'static str) = if mode_pick < 18 {
        let (w, label) = hostile_world(&mut r_proj);
        (None, w, label)
    } else {
        let mut knobs = if r_proj.chance(1, 3) { Knobs::all_on(&mut r_proj) } else { Knobs::random(&mut r_proj) };
        // grammatical but odd expressions (tuples, `_`, anonymous components, nested arrays)
        // in every position an expression can be written in
        knobs.odd_permille = *r_proj.pick(&[0, 0, 0, 15, 60]);
        knobs.odd_names = r_proj.chance(1, 3);
        let shape = ProjectShape { max_files: 3, min_defs: 1, max_defs: if thorough { 6 } else { 5 }, with_main: true, pragma_always: false, name_suffix: String::new() };
        let p = gen::gen_project(&mut r_proj, &knobs, &shape);
        let mut style = Style::random(&mut r_style);
        style.hostile_comments = r_style.chance(1, 6);
        style.bom = r_style.chance(1, 40);
        let w = p.render(&mut r_style, &style);
        (Some(p), w, "generated")
    };
    let named: Vec<String> = match &project {
        Some(p) => p.named_paths(),
        None if mode == "directory-symlink-loop" => vec![r_mode.pick(&[".", "src", "./src/"]).to_string()],
        None => vec!["main.circom".into()],
    };
    let mut mode = mode;

    // faults
    if mode_pick >= 18 && mode_pick < 38 {
        // corruption of one file as read
        let names: Vec<String> = world.files.keys().cloned().collect();
        let target = r_fault.pick(&names).clone();
        let len = world.files[&target].bytes().len();
        let c = Corruption::random(&mut r_fault, len);
        configured.push(c.kind().to_string());
        corrupt_file(&mut world, &target, &c);
        mode = "generated+corruption";
    } else if mode_pick >= 38 && mode_pick < 50 {
        let names: Vec<String> = world.files.keys().cloned().collect();
        let target = r_fault.pick(&names).clone();
        let kinds: [(&str, &str, i32); 10] = [
            ("vanish-after-realpath", "realpath", -2),
            ("enoent-at-realpath", "realpath", libc::ENOENT),
            ("enoent-at-open", "open", libc::ENOENT),
            ("eacces-at-open", "open", libc::EACCES),
            ("emfile-at-open", "open", libc::EMFILE),
            ("eisdir-at-open", "open", libc::EISDIR),
            ("eio-at-read", "read", libc::EIO),
            ("eintr-at-read", "read", -1),
            ("eio-at-realpath", "realpath", libc::EIO),
            ("eloop-at-realpath", "realpath", libc::ELOOP),
        ];
        let (k, call, errno) = *r_fault.pick(&kinds);
        configured.push(k.to_string());
        plan.faults.push(Fault { call: call.into(), errno, occurrence: 1 + r_fault.below(2) as i64, suffix: target });
        if r_fault.chance(1, 3) {
            plan.shortread = 4 + r_fault.below(28) as i64;
            configured.push("short-read".into());
        }
        mode = "generated+fs-errno";
    } else if mode_pick >= 50 && mode_pick < 68 {
        // clock stalls inside the propagation loops
        if r_fault.chance(1, 2) {
            let n = 1 + r_fault.usize(3);
            for _ in 0..n {
                plan.stalls.push((r_fault.below(120) as i64, 10_000_000_000 + r_fault.below(3_600_000_000_000) as i64));
            }
            configured.push("clock-stall@k".into());
        } else {
            plan.stall_permille = *r_fault.pick(&[20, 100, 500, 1000]);
            configured.push("clock-stall-random".into());
        }
        // the wall clock may step backwards (NTP correction, VM resume); nothing in the tool
        // reads it today, so this only matters if a time box ever moves to it
        if r_fault.chance(1, 3) {
            for _ in 0..1 + r_fault.usize(3) {
                plan.wall_back.push((r_fault.below(60) as i64, 3_600_000_000_000));
            }
            configured.push("wall-clock-steps-back".into());
        }
        // the diagnostics channel of a slow machine may be full as well
        if r_fault.chance(1, 4) {
            plan.stderr_errno = *r_fault.pick(&[libc::ENOSPC, libc::EIO, libc::EPIPE]);
            configured.push("stderr-write-fails".into());
        }
        mode = "generated+clock";
    } else if mode_pick >= 68 && mode_pick < 76 && opts.sarif.is_some() {
        let kinds: [(&str, &str, i32); 4] = [
            ("sarif-create-eacces", "create", libc::EACCES),
            ("sarif-create-enospc", "create", libc::ENOSPC),
            ("sarif-write-enospc", "write", libc::ENOSPC),
            ("sarif-write-edquot", "write", libc::EDQUOT),
        ];
        let (k, call, errno) = *r_fault.pick(&kinds);
        configured.push(k.to_string());
        plan.faults.push(Fault { call: call.into(), errno, occurrence: 1, suffix: "out.sarif".into() });
        mode = "generated+sarif-fault";
    }
    // the SARIF target may be something that can be written but not looked at afterwards: a pipe
    // or socket behind /dev/stdout or a process substitution (realpath gives ENOENT), a file a CI
    // step moves away at once, a directory that loses its search permission. Nothing in the tool
    // resolves or re-opens the path today, so these faults fire only if that ever changes.
    // (own sub-stream: the draws of every other decision stay what they were)
    if opts.sarif.is_some() {
        let mut r_after = base.sub("sarif-after-write");
        if r_after.chance(1, 3) {
            let kinds: [(&str, &str, i32); 3] = [
                ("sarif-realpath-enoent", "realpath", libc::ENOENT),
                ("sarif-realpath-eacces", "realpath", libc::EACCES),
                ("sarif-reopen-enoent", "open", libc::ENOENT),
            ];
            let (k, call, errno) = *r_after.pick(&kinds);
            configured.push(k.to_string());
            plan.faults.push(Fault { call: call.into(), errno, occurrence: 1, suffix: "out.sarif".into() });
        }
    }
    if r_fault.chance(1, 10) {
        plan.shortread = 1 + r_fault.below(64) as i64;
        configured.push("short-read".into());
    }
    // the environment the tool consults: the log filter (debug and trace lines evaluate
    // their arguments only when enabled), colour and terminal hints, a temp directory
    let mut r_env = base.sub("env");
    if r_env.chance(1, 10) {
        let v = *r_env.pick(&["debug", "trace", "circomspect_parser=debug", "circomspect_program_structure=trace", "warn", "off", "info,circomspect_program_analysis=trace"]);
        plan.env.push(("RUST_LOG".into(), v.into()));
        configured.push("env:RUST_LOG".into());
    }
    if r_env.chance(1, 20) {
        let (k, v) = *r_env.pick(&[("NO_COLOR", "1"), ("TERM", "dumb"), ("CLICOLOR_FORCE", "1"), ("TMPDIR", "/tmp"), ("TMPDIR", "/dev/shm"), ("HOME", "/nonexistent"), ("LANG", "tr_TR.UTF-8")]);
        plan.env.push((k.into(), v.into()));
        configured.push("env:other".into());
    }
    let mut argv = opts.argv();
    // sometimes name the directory instead of files
    let list_dir = base.sub("env-dir").chance(1, 3);
    if mode == "generated" && (r_mode.chance(1, 10) || (list_dir && base.sub("env").chance(1, 8))) {
        argv.push(".".into());
        plan.dirseed = r_fault.next_u64() | 1;
        configured.push("dir-order".into());
    } else {
        argv.extend(named);
    }
    // neighbours the tool has no business with, but meets when it lists a directory or
    // follows an include: an empty file, names in another case, names that are not UTF-8
    let mut world = world;
    if mode.starts_with("generated") && r_env.chance(1, 8) {
        match r_env.usize(7) {
            4 => world.put("old.@RAW:ff@bak", "x\n"),
            5 => world.put("notes.r@RAW:e9@sum@RAW:e9@", "latin-1 name\n"),
            6 => world.put("caf@RAW:e9@.circom", "pragma circom 2.0.0;\ntemplate Cafe() { signal input a; }\n"),
            0 => world.put("empty_stub.circom", ""),
            1 => world.put("MAIN.CIRCOM", "pragma circom 2.0.0;\ntemplate Upper() { signal input a; }\n"),
            2 => world.put("notes.CIRCOM", "not circom at all\n"),
            _ => world.put("readme – final ’€.txt", "x\n"),
        }
        configured.push("odd-neighbour-file".into());
    }
    Built { case: Case { world, argv, plan }, mode, configured }
}

/// The invariant. Returns a violation signature if the run breaks C01.
pub fn judge(o: &Outcome, mode: &str) -> Option<(String, String)> {
    if let Some(sig) = crash_signature(o) {
        let sig = if sig.starts_with("resource:") || sig.starts_with("signal:") { format!("{sig}@{mode}") } else { sig };
        let detail = format!("exit={:?}\nstderr:\n{}", o.exit, o.stderr.chars().take(2000).collect::<String>());
        return Some((sig, detail));
    }
    // exit is 0 or 1 here; the last stdout line must be the summary line
    let out = parse_stdout(&o.stdout);
    match (&o.exit, &out.summary) {
        (_, Some(_)) => None,
        (e, None) => {
            // clap's help for "no input files" never happens here: files are always named
            Some((format!("no-summary:exit={e:?}"), format!("stdout tail: {}", o.stdout.chars().rev().take(300).collect::<String>().chars().rev().collect::<String>())))
        }
    }
}

fn fingerprint(case: &Case) -> u64 {
    let s = serde_json::to_string(case).unwrap_or_default();
    hash_str(&s)
}

pub fn run(env: &Env) -> i32 {
    let t0 = Instant::now();
    let thorough = !env.quick();
    let n = if thorough { 800_000 } else { 30_000 };
    let n = std::env::var("VERIF_RUNS").ok().and_then(|s| s.parse().ok()).unwrap_or(n);
    let seed = env.seed;

    struct R {
        mode: &'static str,
        configured: Vec<String>,
        fired: Vec<String>,
        verdict: Option<(String, String)>,
        analysed: usize,
        clock_reads: usize,
        sim_ns: i64,
        fp: u64,
        error: Option<String>,
    }
    let results: Vec<R> = env.par_map(n, |runner: &Runner, i| {
        let b = build_case(seed, i, thorough);
        match runner.run(&b.case) {
            Ok(o) => {
                // a crash whose message could not be written (stderr fails by plan) is
                // identified by running the same case again with a working stderr
                let o = if b.case.plan.stderr_errno > 0 && crashed(&o) {
                    let mut c2 = b.case.clone();
                    c2.plan.stderr_errno = 0;
                    match runner.run(&c2) {
                        Ok(o2) if crashed(&o2) => o2,
                        _ => o,
                    }
                } else {
                    o
                };
                let mut fired = Vec::new();
                for e in &o.events {
                    if e.call == "clock" {
                        continue;
                    }
                    if let Some(v) = e.result_num() {
                        if v < 0 && b.case.plan.faults.iter().any(|f| f.call == e.call && e.path.ends_with(&f.suffix)) {
                            fired.push(format!("{}:{}", e.call, -v));
                        }
                    }
                }
                if o.stalls_fired() > 0 {
                    fired.push("clock-stall".into());
                }
                let out = parse_stdout(&o.stdout);
                R {
                    mode: b.mode,
                    configured: b.configured,
                    fired,
                    verdict: judge(&o, b.mode),
                    analysed: out.analyzing.len(),
                    clock_reads: o.clock_reads(),
                    sim_ns: o.sim_ns(),
                    fp: fingerprint(&b.case),
                    error: None,
                }
            }
            Err(e) => R {
                mode: b.mode,
                configured: b.configured,
                fired: vec![],
                verdict: None,
                analysed: 0,
                clock_reads: 0,
                sim_ns: 0,
                fp: 0,
                error: Some(format!("index {i}: {e}")),
            },
        }
    });
    if let Some(r) = results.iter().find(|r| r.error.is_some()) {
        harness_error(&format!("C01 run failed: {}", r.error.clone().unwrap()));
    }

    // collect distinct violation signatures, first index each
    let mut first: BTreeMap<String, (usize, String)> = BTreeMap::new();
    for (i, r) in results.iter().enumerate() {
        if let Some((sig, detail)) = &r.verdict {
            first.entry(sig.clone()).or_insert((i, detail.clone()));
        }
    }
    let known = crate::report::KnownFindings::load();
    let mut violations = Vec::new();
    let runner = Runner::new(&env.bin, &env.shim, &env.scratch, 99);
    for (sig, (i, detail)) in &first {
        let b = build_case(seed, *i, thorough);
        let mut v = Violation { property: "C01".into(), signature: sig.clone(), detail: detail.clone(), replay: Value::Null };
        let case = if known.matches(&v).is_some() {
            b.case.clone()
        } else {
            // minimise while the same signature persists
            println!("minimising {sig} (run {i}) ...");
            let deadline = Instant::now() + std::time::Duration::from_secs(90);
            let mut fails = |c: &Case| -> bool {
                if Instant::now() > deadline {
                    return false;
                }
                match runner.run(c) {
                    Ok(o) => judge(&o, b.mode).map(|(s, _)| &s == sig).unwrap_or(false),
                    Err(_) => false,
                }
            };
            if sig.starts_with("resource:") || sig == "watchdog" || std::env::var("VERIF_NOMIN").is_ok() {
                // each probe may cost a full CPU limit; report unminimised
                b.case.clone()
            } else if fails(&b.case) || fails(&b.case) || fails(&b.case) {
                minimise_case(&b.case, &mut fails, 600)
            } else {
                // the crash was observed, so it is reported; that it does not show again under
                // the same plan means it depends on something the seams do not own (a race
                // between threads of the code under test, for instance)
                v.detail.push_str("\n[did not reproduce in 3 replays of the same plan: not a function of the hash key, the clock and the file system alone]");
                b.case.clone()
            }
        };
        v.replay = json!({"kind": "C01", "seed": seed, "index": i, "mode": b.mode, "signature": sig, "case": case});
        violations.push(v);
    }

    // evidence
    let mut cov: BTreeMap<String, Value> = BTreeMap::new();
    let mut modes: BTreeMap<&str, usize> = BTreeMap::new();
    let mut configured: BTreeMap<String, usize> = BTreeMap::new();
    let mut fired: BTreeMap<String, usize> = BTreeMap::new();
    let mut nontrivial: BTreeSet<u64> = BTreeSet::new();
    let mut sim_ns: i128 = 0;
    let mut clock_reads = 0usize;
    for r in &results {
        *modes.entry(r.mode).or_default() += 1;
        for c in &r.configured {
            *configured.entry(c.clone()).or_default() += 1;
        }
        for f in &r.fired {
            *fired.entry(f.clone()).or_default() += 1;
        }
        if r.analysed > 0 || !r.fired.is_empty() || r.mode != "generated" {
            nontrivial.insert(r.fp);
        }
        sim_ns += r.sim_ns as i128;
        clock_reads += r.clock_reads;
    }
    let wall = t0.elapsed().as_secs_f64();
    let sample_idx = [0usize, 1, 2];
    let samples: Vec<Value> = sample_idx
        .iter()
        .filter(|&&i| i < n)
        .map(|&i| {
            let b = build_case(seed, i, thorough);
            json!({"index": i, "mode": b.mode, "argv": b.case.argv, "plan": b.case.plan, "files": b.case.world.files.keys().collect::<Vec<_>>(),
                   "first_file": b.case.world.files.values().next().map(|f| String::from_utf8_lossy(&f.bytes()).chars().take(600).collect::<String>())})
        })
        .collect();
    cov.insert("evaluations".into(), json!(n));
    cov.insert("distinct_nontrivial".into(), json!(nontrivial.len()));
    cov.insert("rule".into(), json!("one evaluation = one child process of the real binary under the seam; a case counts as non-trivial if at least one definition reached analysis, a planted fault fired, or the input is one of the hostile shapes; distinct by hash of (files, argv, plan)"));
    cov.insert("samples".into(), json!(samples));
    cov.insert("modes".into(), json!(modes));
    cov.insert("fault_kinds_configured".into(), json!(configured));
    cov.insert("fault_kinds_fired".into(), json!(fired));
    {
        let mode_list: Vec<(&str, usize)> = modes.iter().map(|(k, v)| (*k, *v)).collect();
        let mut probes = mode_list.clone();
        probes.push(("time box fired (clock stall)", fired.get("clock-stall").copied().unwrap_or(0)));
        probes.push(("fs errno fired", fired.iter().filter(|(k, _)| k.starts_with("open:") || k.starts_with("read:") || k.starts_with("realpath:")).map(|(_, v)| *v).sum::<usize>()));
        probes.push(("SARIF create/write fault fired", fired.iter().filter(|(k, _)| k.starts_with("create:") || k.starts_with("write:")).map(|(_, v)| *v).sum::<usize>()));
        crate::report::add_probes(&mut cov, &probes);
    }
    cov.insert("simulated_seconds".into(), json!((sim_ns / 1_000_000_000) as i64));
    cov.insert("clock_reads".into(), json!(clock_reads));
    cov.insert("runs_per_hour".into(), json!((n as f64 / wall * 3600.0) as u64));
    cov.insert("distinct_violation_signatures".into(), json!(first.keys().collect::<Vec<_>>()));
    cov.insert("components".into(), json!({"real": ["circomspect binary (main, clap, parser, analysis, writers, codespan)", "std", "tmpfs file system"], "simulated": ["getrandom (hash key)", "clock_gettime (simulated monotonic clock)"], "intercepted_pass_through_with_faults": ["open64", "read", "realpath", "opendir/readdir64", "write/writev on created files"], "stubbed": []}));
    let ev = Evidence {
        property: "C01".into(),
        tier: env.tier.clone(),
        seed,
        level: "exploration".into(),
        coverage: cov,
        assumptions: vec![
            "the program space is the workload generator's grammar plus the hostile shapes listed in props/c01.rs".into(),
            "unbounded running is judged by RLIMIT_CPU 20 s, RLIMIT_AS 4 GiB and an intercepted-call budget, not by wall-clock".into(),
        ],
        wall_s: wall,
        violations: violations.len(),
    };
    ev.write();
    let reproduce = |v: &Value| -> Option<String> {
        let case: Case = serde_json::from_value(v["case"].clone()).ok()?;
        let o = runner.run(&case).ok()?;
        judge(&o, v["mode"].as_str().unwrap_or("")).map(|(s, _)| s)
    };
    crate::report::conclude_with("C01", &violations, Some(&reproduce))
}

pub fn replay(env: &Env, v: &Value) -> i32 {
    let case: Case = match serde_json::from_value(v["case"].clone()) {
        Ok(c) => c,
        Err(e) => harness_error(&format!("replay file: {e}")),
    };
    let want = v["signature"].as_str().unwrap_or("").to_string();
    let runner = Runner::new(&env.bin, &env.shim, &env.scratch, 0);
    let o = runner.run(&case).unwrap_or_else(|e| harness_error(&e));
    match judge(&o, v["mode"].as_str().unwrap_or("")) {
        Some((sig, detail)) => {
            println!("replayed: signature={sig}\n{detail}");
            if sig == want {
                println!("VIOLATION property=C01 replay=(replayed)");
                1
            } else {
                println!("different signature than recorded ({want})");
                1
            }
        }
        None => {
            println!("replay: no violation (exit={:?})", o.exit);
            0
        }
    }
}
