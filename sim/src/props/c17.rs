//! C17 Findings are a function of the sources: same findings for every hash
//! key, clock trajectory and address-space layout, and per definition under
//! reordering of definitions / files and under unrelated additions/removals.

use crate::common::*;
use crate::driver::{harness_error, Env};
use crate::findings::{multiset_exact, describe, first_difference, multiset, with_positions, NF};
use crate::gen::{self, Def, DefKind, Knobs, Layout, Project, ProjectShape, Registry, Stmt, Style};
use crate::minimise::minimise_case;
use crate::outparse::parse_stdout;
use crate::procrun::{Outcome, Runner};
use crate::report::{Evidence, Violation};
use crate::rng::{hash_str, Rng};
use crate::world::{Case, Fault, World};
use serde_json::{json, Value};
use std::collections::{BTreeMap, BTreeSet};
use std::time::Instant;

struct Built {
    project: Project,
    style: Style,
    style_seed: u64,
    base: Case,
    world: World,
    layout: Layout,
}

fn build(seed: u64, i: usize) -> Built {
    let base = Rng::new(seed).sub_n("C17", i as u64);
    let mut r_proj = base.sub("project");
    let mut r_style = base.sub("style");
    let mut r_plan = base.sub("plan");
    let mut knobs = Knobs::random(&mut r_proj);
    let mut shape = ProjectShape { max_files: 3, min_defs: 1, max_defs: 6, with_main: true, pragma_always: false, name_suffix: String::new() };
    // sizes: now and then a project with many small definitions that instantiate each other
    // (whatever is cached, pooled or numbered per run meets more than a handful of entries)
    if i % 40 == 7 {
        shape.min_defs = 100;
        shape.max_defs = 100 + base.sub("size").usize(60);
        knobs.max_stmts = knobs.max_stmts.min(4);
        knobs.components = true;
    }
    let mut project = gen::gen_project(&mut r_proj, &knobs, &shape);
    // name more files than the default, so that several definitions are analysed
    if r_proj.chance(1, 2) || shape.min_defs > 1 {
        project.named = (0..project.files.len()).collect();
    }
    // a second package in a sub-directory: same file names, same include strings, other files
    if r_proj.chance(1, 4) {
        let mut k2 = Knobs::random(&mut r_proj);
        k2.circomlib_names = false;
        let shape2 = ProjectShape { max_files: 2, min_defs: 1, max_defs: 3, with_main: false, pragma_always: false, name_suffix: "Q".into() };
        let q = gen::gen_project(&mut r_proj, &k2, &shape2);
        let off = project.files.len();
        for mut f in q.files {
            f.path = format!("pkg/{}", f.path);
            f.main = None;
            project.files.push(f);
        }
        project.named.push(off); // pkg/main.circom
        if r_proj.chance(1, 2) {
            for j in 1..(project.files.len() - off) {
                project.named.push(off + j);
            }
        }
    }
    let mut r_shape = base.sub("shapes");
    let hand = |name: &str, body: &str, refs: &[&str]| Def {
        kind: DefKind::Template { custom: false, parallel: false },
        name: name.to_string(),
        params: vec![],
        body: vec![Stmt::Raw(body.split_whitespace().map(|t| t.to_string()).collect())],
        inputs: vec![],
        outputs: vec![],
        refs: refs.iter().map(|t| t.to_string()).collect(),
    };
    // a template the desugaring has to drop, used anonymously by another one: whether the
    // user is told "does not exist" or something else must not depend on the visiting order
    if r_shape.chance(1, 10) {
        let fi = project.named[r_shape.usize(project.named.len())];
        let broken = *r_shape.pick(&["signal input a ; signal output b ; var ( p , q ) = ( 1 , 2 , 3 ) ; b <== a ;", "signal input a ; signal output b ; b <== NoSuchGate ( ) ( a , a ) ;"]);
        project.files[fi].defs.push(hand("BrokenQ", broken, &[]));
        let fj = project.named[r_shape.usize(project.named.len())];
        project.files[fj].defs.push(hand("UsesBrokenQ", "signal input x ; signal output y ; y <== BrokenQ ( ) ( x ) ; y * x === 1 ;", &["BrokenQ"]));
        if r_shape.chance(1, 2) {
            project.files[fj].defs.push(hand("AlsoUsesBrokenQ", "signal input x ; signal output y ; var unused = 3 ; y <== BrokenQ ( ) ( x + 1 ) ;", &["BrokenQ"]));
        }
    }
    // one name, two bodies, two named files: which body is analysed is decided by the
    // order in which the files are parsed, and by nothing else
    if project.named.len() >= 2 && r_shape.chance(1, 10) {
        let (fa, fb) = (project.named[0], project.named[1]);
        project.files[fa].defs.push(hand("SameNameQ", "signal input a ; signal output b ; var never_read = 1 ; b <== a * a ;", &[]));
        project.files[fb].defs.push(hand("SameNameQ", "signal input a ; signal output b ; b <-- a ;", &[]));
    }
    // a named file whose name differs from another named file's in letter case only
    if r_shape.chance(1, 12) {
        let fi = project.named[r_shape.usize(project.named.len())];
        let twin_path: String = {
            let p = &project.files[fi].path;
            let (dir, name) = match p.rfind('/') {
                Some(k) => (&p[..k + 1], &p[k + 1..]),
                None => ("", p.as_str()),
            };
            let flipped: String = name.chars().enumerate().map(|(k, c)| if k == 0 { if c.is_uppercase() { c.to_lowercase().next().unwrap_or(c) } else { c.to_uppercase().next().unwrap_or(c) } } else { c }).collect();
            format!("{dir}{flipped}")
        };
        if twin_path != project.files[fi].path && !project.files.iter().any(|f| f.path == twin_path) {
            let mut f = gen::FileUnit::default();
            f.path = twin_path;
            f.pragma = Some("2.0.0".into());
            f.defs.push(hand("CaseTwinQ", "signal input a ; signal output b ; var never_read_q = 2 ; b <-- a ;", &[]));
            project.files.push(f);
            project.named.push(project.files.len() - 1);
        }
    }
    let style = Style::random(&mut r_style);
    let style_seed = r_style.next_u64();
    let (world, layout) = project.render_with_layout(&mut Rng::new(style_seed), &style);
    let plan = quiet_plan(&mut r_plan);
    let opts = Opts::base();
    let case = make_case(&project, world.clone(), &opts, plan);
    Built { project, style, style_seed, base: case, world, layout }
}

fn render(b: &Built, p: &Project) -> (World, Layout) {
    p.render_with_layout(&mut Rng::new(b.style_seed), &b.style)
}

/// Findings of definitions other than `skip` (by name), positions dropped, sorted.
fn findings_except(o: &Outcome, world: &World, layout: &Layout, skip: Option<&str>) -> Vec<NF> {
    let out = parse_stdout(&o.stdout);
    let mut v: Vec<NF> = Vec::new();
    for mut n in with_positions(&out, world) {
        if let (Some(skip), Some((path, line))) = (skip, n.first.clone()) {
            if let Some(d) = layout.def_at(&path, line) {
                if d.1 == skip {
                    continue;
                }
            }
        }
        // a finding without location belongs to the definition its message names
        if let (Some(skip), None) = (skip, n.first.as_ref()) {
            if n.message.contains(&format!("`{skip}`")) {
                continue;
            }
        }
        n.first = None;
        v.push(n);
    }
    v.sort();
    v
}

/// The SARIF document as a sorted list of results (rule, level, message, sorted locations,
/// sorted related locations) plus the sorted rule ids: what must not differ between two runs
/// over the same text, whatever order the tool emits things in.
fn sarif_canon(text: &Option<String>) -> Option<Vec<String>> {
    let v: Value = serde_json::from_str(text.as_ref()?).ok()?;
    let mut out = Vec::new();
    for run in v["runs"].as_array()? {
        let mut rules: Vec<String> = run["tool"]["driver"]["rules"].as_array().map(|a| a.iter().map(|r| r["id"].to_string()).collect()).unwrap_or_default();
        rules.sort();
        out.push(format!("rules {rules:?}"));
        for r in run["results"].as_array()? {
            let sorted = |key: &str| -> Vec<String> {
                let mut l: Vec<String> = r[key].as_array().map(|a| a.iter().map(|x| x.to_string()).collect()).unwrap_or_default();
                l.sort();
                l
            };
            out.push(format!("{} {} {} {:?} {:?}", r["ruleId"], r["level"], r["message"]["text"], sorted("locations"), sorted("relatedLocations")));
        }
    }
    out.sort();
    Some(out)
}

#[derive(Default)]
struct Res {
    runs: usize,
    crashed: usize,
    keys_tried: usize,
    distinct_orders: usize,
    findings: usize,
    relations: BTreeMap<&'static str, usize>,
    violation: Option<(String, String, Value)>,
    harness_err: Option<String>,
    nontrivial: bool,
    sim_ns: i64,
    fp: u64,
    byte_differences: usize,
}

fn analysing_order(o: &Outcome) -> String {
    parse_stdout(&o.stdout).analyzing.iter().map(|(k, n)| format!("{k}:{n}")).collect::<Vec<_>>().join(",")
}

fn one(runner: &Runner, seed: u64, i: usize, keys: usize) -> Res {
    let mut res = Res::default();
    let b = build(seed, i);
    res.fp = hash_str(&serde_json::to_string(&b.base).unwrap_or_default());
    let mut r_keys = Rng::new(seed).sub_n("C17-keys", i as u64);
    let run = |c: &Case, res: &mut Res| -> Option<Outcome> {
        match runner.run(c) {
            Ok(o) => {
                res.runs += 1;
                res.sim_ns += o.sim_ns();
                if crashed(&o) {
                    res.crashed += 1;
                    None
                } else {
                    Some(o)
                }
            }
            Err(e) => {
                res.harness_err = Some(e);
                None
            }
        }
    };
    let Some(o0) = run(&b.base, &mut res) else { return res };
    let m0 = multiset(&parse_stdout(&o0.stdout), &b.world);
    // where the text of the files is the same in both runs, generated names must agree too
    let x0 = multiset_exact(&parse_stdout(&o0.stdout), &b.world);
    res.findings = m0.len();
    let mut orders: BTreeSet<String> = BTreeSet::new();
    orders.insert(analysing_order(&o0));

    // relation 1: the same case again (another process id, same everything else). The
    // self-test proves that on the unchanged tree this is byte-identical; a different
    // *multiset of findings* is what the property forbids, so that is what is judged.
    let mut rerun: Option<(Vec<NF>, bool)> = None;
    if i % 8 == 0 {
        if let Some(o1) = run(&b.base, &mut res) {
            let m1 = multiset_exact(&parse_stdout(&o1.stdout), &b.world);
            let identical = o1.stdout == o0.stdout && o1.sarif == o0.sarif && o1.events == o0.events;
            rerun = Some((m1, identical));
        }
        *res.relations.entry("replay-identical").or_default() += 1;
    }

    let mut report = |rel: &'static str, what: String, a: &Case, bc: &Case, ma: &[NF], mb: &[NF], res: &mut Res| {
        if res.violation.is_some() {
            return;
        }
        let diff = first_difference(ma, mb);
        // of two definitions with one name only the first one parsed is analysed (and the
        // name is reported): under the reordering relations that is one listed finding
        let dup = ma.iter().chain(mb.iter()).any(|n| n.code == "T2008");
        if dup && ["reorder-files", "dir-order", "reorder-defs"].contains(&rel) && diff.is_some() {
            res.violation = Some((
                format!("duplicate-name:{rel}"),
                format!("{what}; a name is defined twice, and which definition is analysed follows the parse order"),
                json!({"kind": "C17", "relation": rel, "seed": seed, "index": i, "a": a, "b": bc}),
            ));
            return;
        }
        let (code, detail) = match &diff {
            Some((Some(x), _)) => (diff_key(&diff), format!("only in first: {}", describe(x))),
            Some((_, Some(y))) => (diff_key(&diff), format!("only in second: {}", describe(y))),
            _ => (String::new(), String::new()),
        };
        res.violation = Some((
            format!("{rel}:{code}"),
            format!("{what}; {detail}"),
            json!({"kind": "C17", "relation": rel, "seed": seed, "index": i, "a": a, "b": bc}),
        ));
    };

    if let Some((m1, identical)) = rerun {
        if m1 != x0 {
            report("rerun", "the same files, options, hash key and clock, run twice".into(), &b.base, &b.base, &x0, &m1, &mut res);
        } else if !identical {
            res.byte_differences += 1;
        }
    }
    // relation 1': same hash key, other clock trajectory, ASLR on
    {
        let mut c = b.base.clone();
        c.plan.clockseed = r_keys.next_u64();
        c.plan.aslr = true;
        if let Some(o) = run(&c, &mut res) {
            let m = multiset_exact(&parse_stdout(&o.stdout), &b.world);
            *res.relations.entry("clock-and-aslr").or_default() += 1;
            if m != x0 {
                report("clock-aslr", "same hash key, different clock seed and address-space layout".into(), &b.base, &c, &x0, &m, &mut res);
            }
        }
    }

    // relation 2: hash keys
    for _ in 0..keys {
        let mut c = b.base.clone();
        c.plan.set_hashkey(r_keys.bytes16());
        res.keys_tried += 1;
        if let Some(o) = run(&c, &mut res) {
            orders.insert(analysing_order(&o));
            let m = multiset_exact(&parse_stdout(&o.stdout), &b.world);
            *res.relations.entry("hash-order").or_default() += 1;
            if m != x0 {
                report("hash-order", "same files and options, different hash key".into(), &b.base, &c, &x0, &m, &mut res);
                break;
            }
            if let (Some(s0), Some(s1)) = (sarif_canon(&o0.sarif), sarif_canon(&o.sarif)) {
                *res.relations.entry("hash-order-sarif").or_default() += 1;
                if s0 != s1 && res.violation.is_none() {
                    let d = s0.iter().find(|x| !s1.contains(x)).or_else(|| s1.iter().find(|x| !s0.contains(x))).cloned().unwrap_or_default();
                    res.violation = Some((
                        "hash-order:sarif".into(),
                        format!("same files and options, different hash key: the SARIF documents differ beyond the order of their entries; e.g. {}", d.chars().take(300).collect::<String>()),
                        json!({"kind": "C17", "relation": "hash-order-sarif", "seed": seed, "index": i, "a": b.base, "b": c}),
                    ));
                    break;
                }
            }
        }
    }
    // relation 2': the same bytes handed over in small pieces (short reads are legal)
    {
        let mut c = b.base.clone();
        c.plan.shortread = 3 + r_keys.below(300) as i64;
        if let Some(o) = run(&c, &mut res) {
            let m = multiset_exact(&parse_stdout(&o.stdout), &b.world);
            *res.relations.entry("short-reads").or_default() += 1;
            if m != x0 {
                report("short-reads", format!("same files and options, read(2) returns at most {} bytes per call", c.plan.shortread), &b.base, &c, &x0, &m, &mut res);
            }
        }
    }
    // relation 2'': one input file is slow to open and to read (real time; the simulated
    // clock does not move): whoever reads files concurrently finishes in another order
    if b.project.named.len() >= 2 {
        let mut c = b.base.clone();
        let slow = r_keys.pick(&b.project.named_paths()).clone();
        let ms = 30 + r_keys.below(50) as i32;
        c.plan.faults.push(Fault { call: "open".into(), errno: -1000 - ms, occurrence: 1, suffix: slow.clone() });
        c.plan.faults.push(Fault { call: "read".into(), errno: -1000 - ms, occurrence: 1, suffix: slow.clone() });
        if let Some(o) = run(&c, &mut res) {
            let m = multiset_exact(&parse_stdout(&o.stdout), &b.world);
            *res.relations.entry("slow-file").or_default() += 1;
            if m != x0 {
                report("slow-file", format!("same files and options, `{slow}` takes {ms} ms longer to open and to read"), &b.base, &c, &x0, &m, &mut res);
            }
        }
    }
    res.distinct_orders = orders.len();
    res.nontrivial = !m0.is_empty() && (orders.len() >= 2 || b.project.named_defs().len() >= 2);

    // relation 3a: definitions reordered within each file
    {
        let mut p = b.project.clone();
        let mut changed = false;
        for f in p.files.iter_mut() {
            if f.defs.len() >= 2 {
                let before: Vec<String> = f.defs.iter().map(|d| d.name.clone()).collect();
                r_keys.shuffle(&mut f.defs);
                if before != f.defs.iter().map(|d| d.name.clone()).collect::<Vec<_>>() {
                    changed = true;
                }
            }
        }
        if changed {
            let (w, _) = render(&b, &p);
            let mut c = b.base.clone();
            c.world = w.clone();
            if let Some(o) = run(&c, &mut res) {
                let m = multiset(&parse_stdout(&o.stdout), &w);
                *res.relations.entry("reorder-definitions").or_default() += 1;
                if m != m0 {
                    report("reorder-defs", "definitions of a file reordered".into(), &b.base, &c, &m0, &m, &mut res);
                }
            }
        }
    }
    // relation 3b: named files in another order
    if b.project.named.len() >= 2 {
        let mut p = b.project.clone();
        p.named.reverse();
        let mut c = make_case(&p, b.world.clone(), &Opts::base(), b.base.plan.clone());
        c.plan = b.base.plan.clone();
        if let Some(o) = run(&c, &mut res) {
            let m = multiset_exact(&parse_stdout(&o.stdout), &b.world);
            *res.relations.entry("reorder-files").or_default() += 1;
            if m != x0 {
                report("reorder-files", "input files given in another order".into(), &b.base, &c, &x0, &m, &mut res);
            }
        }
    }
    // relation 3b': a path that does not exist among the inputs, at two positions: the
    // findings of the files that do exist must not depend on where the bad path stands
    {
        let n_named = b.project.named.len();
        let head = b.base.argv.len() - n_named;
        let mut outs = Vec::new();
        for pos in [0usize, n_named] {
            let mut c = b.base.clone();
            c.argv.insert(head + pos, "ghost.circom".into());
            if let Some(o) = run(&c, &mut res) {
                outs.push((c, multiset(&parse_stdout(&o.stdout), &b.world)));
            }
        }
        if outs.len() == 2 {
            *res.relations.entry("missing-file-position").or_default() += 1;
            if outs[0].1 != outs[1].1 {
                let (ca, ma) = outs[0].clone();
                let (cb, mb) = outs[1].clone();
                report("missing-file-position", "a non-existent input path first vs last".into(), &ca, &cb, &ma, &mb, &mut res);
            }
        }
    }
    // relation 5: a stall of the clock while one definition is lifted may cost that
    // definition (and those that instantiate it) findings, never the others
    {
        let reads = o0.clock_reads();
        if reads >= 4 && b.project.named_defs().len() >= 2 {
            let mut c = b.base.clone();
            c.plan.stalls.push((1 + r_keys.below(reads as u64 - 1) as i64, 11_000_000_000));
            if let Some(o) = run(&c, &mut res) {
                *res.relations.entry("stall-isolation").or_default() += 1;
                let per_def = |o: &Outcome| -> BTreeMap<String, Vec<NF>> {
                    let mut m: BTreeMap<String, Vec<NF>> = BTreeMap::new();
                    for mut n in with_positions(&parse_stdout(&o.stdout), &b.world) {
                        let key = n.first.as_ref().and_then(|(p, l)| b.layout.def_at(p, *l)).map(|d| d.1.clone()).unwrap_or_else(|| "<none>".into());
                        n.first = None;
                        m.entry(key).or_default().push(n);
                    }
                    for v in m.values_mut() {
                        v.sort();
                    }
                    m
                };
                let (ma, mb) = (per_def(&o0), per_def(&o));
                let names: BTreeSet<String> = ma.keys().chain(mb.keys()).cloned().collect();
                let changed: Vec<String> = names.into_iter().filter(|k| ma.get(k) != mb.get(k)).collect();
                // all changed definitions must be one definition d or instantiate / call d
                let refs_of = |name: &str| -> Vec<String> {
                    b.project.files.iter().flat_map(|f| f.defs.iter()).find(|d| d.name == name).map(|d| d.refs.clone()).unwrap_or_default()
                };
                let all_defs: Vec<String> = b.project.files.iter().flat_map(|f| f.defs.iter().map(|d| d.name.clone())).collect();
                let explained = changed.is_empty()
                    || all_defs.iter().any(|d| changed.iter().all(|c| c == d || refs_of(c).contains(d)));
                if !explained {
                    let (x, y) = (multiset(&parse_stdout(&o0.stdout), &b.world), multiset(&parse_stdout(&o.stdout), &b.world));
                    report("stall-isolation", format!("one clock stall changed the findings of unrelated definitions {changed:?}"), &b.base, &c, &x, &y, &mut res);
                }
            }
        }
    }
    // relation 3c: the directory named instead of all its files, two listing orders
    if b.project.named.len() == b.project.files.len() {
        for _ in 0..2 {
            let mut c = b.base.clone();
            let mut argv = Opts::base().argv();
            argv.push(".".into());
            c.argv = argv;
            c.plan.dirseed = r_keys.next_u64() | 1;
            if let Some(o) = run(&c, &mut res) {
                let m = multiset(&parse_stdout(&o.stdout), &b.world);
                *res.relations.entry("directory-listing-order").or_default() += 1;
                if m != m0 {
                    report("dir-order", "directory named instead of its files".into(), &b.base, &c, &m0, &m, &mut res);
                }
            }
        }
    }
    // relation 4a: an unrelated definition added to a named file
    {
        let mut p = b.project.clone();
        let fi = p.named[r_keys.usize(p.named.len())];
        let k = Knobs::random(&mut r_keys);
        let extra = if r_keys.chance(1, 2) {
            gen::gen_function(&mut r_keys, &k, &Registry::default(), "extra_fn")
        } else {
            gen::gen_template(&mut r_keys, &k, &Registry::default(), "ExtraT")
        };
        let extra_name = extra.name.clone();
        p.files[fi].defs.push(extra);
        let (w, layout) = render(&b, &p);
        let mut c = b.base.clone();
        c.world = w.clone();
        if let Some(o) = run(&c, &mut res) {
            let m = findings_except(&o, &w, &layout, Some(&extra_name));
            *res.relations.entry("frame-add").or_default() += 1;
            if m != m0 {
                report("frame-add", format!("unrelated definition `{extra_name}` added"), &b.base, &c, &m0, &m, &mut res);
            }
        }
    }
    // relation 4b: a definition nobody references removed
    {
        let referenced: BTreeSet<String> = b
            .project
            .files
            .iter()
            .flat_map(|f| f.defs.iter().flat_map(|d| d.refs.iter().cloned()))
            .chain(b.project.files.iter().filter_map(|f| f.main.as_ref().map(|m| m.template.clone())))
            .collect();
        let mut cands: Vec<(usize, usize)> = Vec::new();
        for &fi in &b.project.named {
            for (di, d) in b.project.files[fi].defs.iter().enumerate() {
                // (a name carried by two definitions cannot be told apart by position-free keys)
                let twice = b.project.files.iter().flat_map(|f| f.defs.iter()).filter(|x| x.name == d.name).count() > 1;
                if !referenced.contains(&d.name) && !twice {
                    cands.push((fi, di));
                }
            }
        }
        if !cands.is_empty() {
            let (fi, di) = cands[r_keys.usize(cands.len())];
            let mut p = b.project.clone();
            let removed = p.files[fi].defs.remove(di);
            let (w, _) = render(&b, &p);
            let mut c = b.base.clone();
            c.world = w.clone();
            if let Some(o) = run(&c, &mut res) {
                let m = multiset(&parse_stdout(&o.stdout), &w);
                let expect = findings_except(&o0, &b.world, &b.layout, Some(&removed.name));
                *res.relations.entry("frame-remove").or_default() += 1;
                if m != expect {
                    report("frame-remove", format!("unreferenced definition `{}` removed", removed.name), &b.base, &c, &expect, &m, &mut res);
                }
            }
        }
    }
    res
}

fn diff_key(d: &Option<(Option<NF>, Option<NF>)>) -> String {
    match d {
        Some((Some(x), _)) => format!("{}:{}", x.code, crate::findings::message_key(&x.message)),
        Some((_, Some(y))) => format!("{}:{}", y.code, crate::findings::message_key(&y.message)),
        _ => String::new(),
    }
}

/// The key of the first differing finding between the two runs, if any.
fn differs(runner: &Runner, a: &Case, b: &Case) -> Option<String> {
    let (Ok(oa), Ok(ob)) = (runner.run(a), runner.run(b)) else { return None };
    if crashed(&oa) || crashed(&ob) {
        return None;
    }
    let same_text = a.world == b.world;
    let ms = |o: &Outcome, w: &World| if same_text { multiset_exact(&parse_stdout(&o.stdout), w) } else { multiset(&parse_stdout(&o.stdout), w) };
    let ma = ms(&oa, &a.world);
    let mb = ms(&ob, &b.world);
    let d = first_difference(&ma, &mb);
    if d.is_none() && same_text {
        if let (Some(s0), Some(s1)) = (sarif_canon(&oa.sarif), sarif_canon(&ob.sarif)) {
            if s0 != s1 {
                return Some("sarif".into());
            }
        }
    }
    d.as_ref()?;
    Some(diff_key(&d))
}

pub fn run(env: &Env) -> i32 {
    let t0 = Instant::now();
    let (n, keys) = if env.quick() { (1500, 8) } else { (25_000, 32) };
    let n = std::env::var("VERIF_RUNS").ok().and_then(|s| s.parse().ok()).unwrap_or(n);
    let seed = env.seed;
    let results: Vec<Res> = env.par_map(n, |runner, i| one(runner, seed, i, keys));
    if let Some(r) = results.iter().find(|r| r.harness_err.is_some()) {
        harness_error(&format!("C17: {}", r.harness_err.clone().unwrap()));
    }
    let runner = Runner::new(&env.bin, &env.shim, &env.scratch, 99);
    let known = crate::report::KnownFindings::load();
    let mut seen: BTreeSet<String> = BTreeSet::new();
    let mut violations = Vec::new();
    for r in &results {
        if let Some((sig, detail, replay)) = &r.violation {
            if !seen.insert(sig.clone()) {
                continue;
            }
            let mut v = Violation { property: "C17".into(), signature: sig.clone(), detail: detail.clone(), replay: replay.clone() };
            if known.matches(&v).is_none() {
                // minimise when the two cases share their world (plan-only relations)
                let a: Case = serde_json::from_value(replay["a"].clone()).unwrap();
                let b: Case = serde_json::from_value(replay["b"].clone()).unwrap();
                if a.world == b.world && a.argv == b.argv && std::env::var("VERIF_NOMIN").is_err() {
                    let bplan = b.plan.clone();
                    let want = sig.splitn(2, ':').nth(1).unwrap_or("").to_string();
                    let mut fails = |c: &Case| {
                        let mut cb = c.clone();
                        cb.plan = bplan.clone();
                        cb.plan.faults = c.plan.faults.clone();
                        differs(&runner, c, &cb).map(|k| k == want).unwrap_or(false)
                    };
                    // (a difference that comes from outside the seams, e.g. threads racing in
                    // the code under test, need not show on every replay)
                    let mut reproduced = false;
                    for _ in 0..6 {
                        if fails(&a) {
                            reproduced = true;
                            break;
                        }
                    }
                    if !reproduced {
                        v.detail.push_str(" [did not reproduce in 6 replays of the recorded pair: the difference does not come from the hash key, the clock or the file system alone]");
                    } else if fails(&a) {
                        let mut small = a.clone();
                        // keep a's hash key: step 5 of the minimiser would equalise the keys
                        let akey = a.plan.hashkey.clone();
                        small = minimise_case(&small, &mut |c: &Case| c.plan.hashkey == akey && fails(c), 1500);
                        let mut sb = small.clone();
                        sb.plan = bplan.clone();
                        v.replay["a"] = json!(small);
                        v.replay["b"] = json!(sb);
                    }
                }
            }
            violations.push(v);
        }
    }
    let wall = t0.elapsed().as_secs_f64();
    let mut cov: BTreeMap<String, Value> = BTreeMap::new();
    let runs: usize = results.iter().map(|r| r.runs).sum();
    let mut relations: BTreeMap<&str, usize> = BTreeMap::new();
    for r in &results {
        for (k, v) in &r.relations {
            *relations.entry(k).or_default() += v;
        }
    }
    let nontrivial: BTreeSet<u64> = results.iter().filter(|r| r.nontrivial).map(|r| r.fp).collect();
    let b0 = build(seed, 0);
    cov.insert("evaluations".into(), json!(runs));
    cov.insert("projects".into(), json!(n));
    cov.insert("distinct_nontrivial".into(), json!(nontrivial.len()));
    cov.insert("rule".into(), json!("one evaluation = one child run of the real binary; a project is non-trivial if it displays at least one finding and either >= 2 distinct analysis orders were reached over the hash keys tried or >= 2 definitions were analysed; distinct by hash of (files, argv, plan)"));
    cov.insert("samples".into(), json!([{"index": 0, "argv": b0.base.argv, "plan": b0.base.plan, "files": b0.world.files}]));
    cov.insert("reruns_with_equal_findings_but_different_bytes".into(), json!(results.iter().map(|r| r.byte_differences).sum::<usize>()));
    cov.insert("relation_checks".into(), json!(relations));
    {
        let names = ["replay-identical", "clock-and-aslr", "hash-order", "hash-order-sarif", "short-reads", "slow-file", "reorder-definitions", "reorder-files", "missing-file-position", "directory-listing-order", "frame-add", "frame-remove", "stall-isolation"];
        let mut probes: Vec<(&str, usize)> = names.iter().map(|k| (*k, relations.get(k).copied().unwrap_or(0))).collect();
        probes.push(("project with two or more analysis orders", results.iter().filter(|r| r.distinct_orders >= 2).count()));
        crate::report::add_probes(&mut cov, &probes);
    }
    cov.insert("hash_keys_tried".into(), json!(results.iter().map(|r| r.keys_tried).sum::<usize>()));
    cov.insert("projects_with_2plus_analysis_orders".into(), json!(results.iter().filter(|r| r.distinct_orders >= 2).count()));
    cov.insert("max_distinct_analysis_orders".into(), json!(results.iter().map(|r| r.distinct_orders).max().unwrap_or(0)));
    cov.insert("findings_in_base_runs".into(), json!(results.iter().map(|r| r.findings).sum::<usize>()));
    cov.insert("runs_skipped_because_crashed".into(), json!(results.iter().map(|r| r.crashed).sum::<usize>()));
    cov.insert("simulated_seconds".into(), json!(results.iter().map(|r| r.sim_ns as i128).sum::<i128>() as f64 / 1e9));
    cov.insert("runs_per_hour".into(), json!((runs as f64 / wall * 3600.0) as u64));
    cov.insert("fault_kinds_fired".into(), json!({"hash-key": runs, "clock-fine": runs, "aslr-on": relations.get("clock-and-aslr").copied().unwrap_or(0), "dir-order": relations.get("directory-listing-order").copied().unwrap_or(0)}));
    cov.insert("components".into(), json!({"real": ["circomspect binary", "std", "tmpfs"], "simulated": ["getrandom", "clock_gettime"], "stubbed": []}));
    Evidence {
        property: "C17".into(),
        tier: env.tier.clone(),
        seed,
        level: "exploration".into(),
        coverage: cov,
        assumptions: vec![
            "findings are compared as displayed on stdout (--verbose --level info), normalised to (id, severity, message, label texts, source line under each location)".into(),
            "hash orders are sampled through SipHash keys, not enumerated".into(),
            "runs that crash are C01's business and are skipped here (counted)".into(),
        ],
        wall_s: wall,
        violations: violations.len(),
    }
    .write();
    let reproduce = |v: &Value| -> Option<String> {
        let a: Case = serde_json::from_value(v["a"].clone()).ok()?;
        let b: Case = serde_json::from_value(v["b"].clone()).ok()?;
        let rel = v["relation"].as_str().unwrap_or("").to_string();
        let (oa, ob) = (runner.run(&a).ok()?, runner.run(&b).ok()?);
        if crashed(&oa) || crashed(&ob) {
            return None;
        }
        let ma = multiset(&parse_stdout(&oa.stdout), &a.world);
        let mb = multiset(&parse_stdout(&ob.stdout), &b.world);
        let d = first_difference(&ma, &mb);
        d.as_ref()?;
        if ma.iter().chain(mb.iter()).any(|n| n.code == "T2008") && ["reorder-files", "dir-order", "reorder-defs"].contains(&rel.as_str()) {
            return Some(format!("duplicate-name:{rel}"));
        }
        Some(format!("{rel}:{}", diff_key(&d)))
    };
    crate::report::conclude_with("C17", &violations, Some(&reproduce))
}

pub fn replay(env: &Env, v: &Value) -> i32 {
    let a: Case = serde_json::from_value(v["a"].clone()).unwrap_or_else(|e| harness_error(&format!("replay: {e}")));
    let b: Case = serde_json::from_value(v["b"].clone()).unwrap_or_else(|e| harness_error(&format!("replay: {e}")));
    let runner = Runner::new(&env.bin, &env.shim, &env.scratch, 0);
    let oa = runner.run(&a).unwrap_or_else(|e| harness_error(&e));
    let ob = runner.run(&b).unwrap_or_else(|e| harness_error(&e));
    let same_text = a.world == b.world;
    let ms = |o: &Outcome, w: &World| if same_text { multiset_exact(&parse_stdout(&o.stdout), w) } else { multiset(&parse_stdout(&o.stdout), w) };
    let ma = ms(&oa, &a.world);
    let mb = ms(&ob, &b.world);
    println!("relation: {}", v["relation"]);
    if v["relation"] == "frame-add" || v["relation"] == "frame-remove" {
        println!("(frame relations compare per-definition findings; rerun the check with the same VERIF_SEED to re-judge)");
    }
    match first_difference(&ma, &mb) {
        Some((x, y)) => {
            println!("first: {} findings, second: {} findings", ma.len(), mb.len());
            if let Some(x) = x {
                println!("only in first: {}", describe(&x));
            }
            if let Some(y) = y {
                println!("only in second: {}", describe(&y));
            }
            println!("VIOLATION property=C17 replay=(replayed)");
            1
        }
        None => {
            println!("replay: finding multisets are equal");
            0
        }
    }
}
