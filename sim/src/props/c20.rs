//! C20 Cutting propagation short never makes a claim wrong. The clock seam
//! fires the real bail-out branch of the real loops at every read index (and at
//! sampled pairs and random rates); on the CFG that comes back every constant
//! and every degree bound is checked by the reference interpreter, and all
//! analysis passes must run to completion on it.

use crate::driver::Env;
use crate::gen::{self, Knobs};
use crate::interp::{check_degrees, Field, Interp, Mode};
use crate::libtier::{run_in_sim, SimPlan, SimResult};
use crate::report::{conclude, Evidence, Violation};
use crate::rng::Rng;
use num_bigint_dig::BigInt;
use program_analysis::analysis_context::{AnalysisContext, AnalysisError};
use program_analysis::get_analysis_passes;
use program_structure::cfg::{Cfg, IntoCfg};
use program_structure::constants::Curve;
use program_structure::file_definition::{FileID, FileLocation};
use program_structure::report::ReportCollection;
use serde_json::{json, Value};
use std::collections::{BTreeMap, BTreeSet};
use std::str::FromStr;
use std::sync::atomic::{AtomicUsize, Ordering};
use std::sync::Mutex;
use std::time::Instant;

const CURVES: [&str; 3] = ["BN254", "BLS12_381", "GOLDILOCKS"];

struct NoContext;

impl AnalysisContext for NoContext {
    fn is_function(&self, _: &str) -> bool {
        false
    }
    fn is_template(&self, _: &str) -> bool {
        false
    }
    fn function(&mut self, name: &str) -> Result<&Cfg, AnalysisError> {
        Err(AnalysisError::UnknownFunction { name: name.to_string() })
    }
    fn template(&mut self, name: &str) -> Result<&Cfg, AnalysisError> {
        Err(AnalysisError::UnknownTemplate { name: name.to_string() })
    }
    fn underlying_str(&self, file_id: &FileID, _: &FileLocation) -> Result<String, AnalysisError> {
        Err(AnalysisError::UnknownFile { file_id: *file_id })
    }
}

#[derive(Clone, Default)]
struct Eval {
    lifted: bool,
    verdict: Option<(String, String)>,
    value_claims_checked: usize,
    degree_claims_judged: usize,
    reports: usize,
    nodes_with_value: usize,
    pass_claims: usize,
    /// (id, message, start, end of the primary label) of every pass report
    findings: Vec<(String, String, usize, usize)>,
    division_claims: usize,
}

fn count_value_nodes(cfg: &Cfg) -> usize {
    // statements that carry a claimed constant (cheap proxy for "facts attached so far")
    let mut n = 0;
    for bb in cfg.iter() {
        for s in bb.iter() {
            if s.meta().value_knowledge().get_reduces_to().is_some() {
                n += 1;
            }
        }
    }
    n
}

fn evaluate(path: &std::path::Path, prelude: &str, src: &str, curve_idx: usize, oracle_seed: u64, valuations: usize, lines: usize) -> Eval {
    let mut e = Eval::default();
    let curve = Curve::from_str(CURVES[curve_idx]).unwrap_or_default();
    // another definition lifted first on the same thread (its propagation may be the one
    // that is cut): whatever it leaves behind must not leak into the judged definition
    if !prelude.is_empty() {
        if let Some(pd) = parser::parse_definition(prelude) {
            let mut scratch = ReportCollection::new();
            if let Ok(c) = pd.into_cfg(&curve, &mut scratch) {
                let _ = c.into_ssa();
            }
        }
    }
    // the judged definition goes through the file-based parser so that it has a file id and
    // the reports of the passes carry labels that can be matched to IR statements
    if std::fs::write(path, src).is_err() {
        return e;
    }
    let (templates, functions) = match parser::parse_files(&[path.to_path_buf()], &[], &program_analysis::config::COMPILER_VERSION) {
        parser::ParseResult::Program(p, _) => (p.templates, p.functions),
        parser::ParseResult::Library(l, _) => (l.templates, l.functions),
    };
    let mut reports = ReportCollection::new();
    let lifted = if let Some(t) = templates.values().next() {
        t.into_cfg(&curve, &mut reports)
    } else if let Some(f) = functions.values().next() {
        f.into_cfg(&curve, &mut reports)
    } else {
        return e;
    };
    let Ok(cfg) = lifted else { return e };
    let Ok(cfg) = cfg.into_ssa() else { return e };
    e.lifted = true;
    e.nodes_with_value = count_value_nodes(&cfg);
    // (1) all passes run to completion on the (possibly cut) CFG; a panic unwinds to run_in_sim
    let mut ctx = NoContext;
    let mut pass_reports = ReportCollection::new();
    for pass in get_analysis_passes() {
        pass_reports.extend(pass(&mut ctx, &cfg));
    }
    e.reports = pass_reports.len();
    e.findings = pass_reports
        .iter()
        .map(|r| {
            let (a, b) = r.primary().first().map(|l| (l.range.start, l.range.end)).unwrap_or((0, 0));
            (r.id(), r.message().to_string(), a, b)
        })
        .collect();
    e.findings.sort();
    // (4) claims made by the passes themselves, matched to IR nodes through their labels
    let mut quadratic_claims: Vec<(crate::interp::NodeId, usize, String)> = Vec::new();
    let mut always_claims: Vec<(crate::interp::NodeId, bool, String)> = Vec::new();
    for r in &pass_reports {
        let Some(label) = r.primary().first() else { continue };
        for bb in cfg.iter() {
            for s in bb.iter() {
                match (r.id().as_str(), s) {
                    ("CS0013", program_structure::ir::Statement::Substitution { meta, rhe, op: program_structure::ir::AssignOp::AssignSignal, .. })
                        if meta.file_location() == label.range =>
                    {
                        // `update(...)` wraps the assigned value for array elements and ports
                        let node = match rhe {
                            program_structure::ir::Expression::Update { rhe: inner, .. } => inner.as_ref(),
                            other => other,
                        };
                        quadratic_claims.push((crate::interp::node_id(node), 2, format!("`<--` reported as rewritable with `<==`: {node:?}")));
                    }
                    ("CS0009", program_structure::ir::Statement::IfThenElse { cond, .. }) if cond.meta().file_location() == label.range => {
                        let always = label.message.contains("always true");
                        always_claims.push((crate::interp::node_id(cond), always, format!("{cond:?}")));
                    }
                    _ => {}
                }
            }
        }
    }
    // a Num2Bits / Bits2Num instantiation without a CS0010 report is a size judged safe
    let mut safe_size_claims: Vec<(crate::interp::NodeId, String)> = Vec::new();
    if curve_idx == 0 && matches!(cfg.definition_type(), program_structure::cfg::DefinitionType::Template) {
        for bb in cfg.iter() {
            for s in bb.iter() {
                if let program_structure::ir::Statement::Substitution { op: program_structure::ir::AssignOp::AssignLocalOrComponent, rhe, meta: var_meta, .. } = s {
                    if var_meta.type_knowledge().is_local() || var_meta.type_knowledge().is_signal() {
                        continue;
                    }
                    let inner = match rhe {
                        program_structure::ir::Expression::Update { rhe: inner, .. } => inner.as_ref(),
                        other => other,
                    };
                    if let program_structure::ir::Expression::Call { meta: cm, name, args } = inner {
                        if (name == "Num2Bits" || name == "Bits2Num") && args.len() == 1 {
                            let reported = pass_reports.iter().any(|r| r.id() == "CS0010" && r.primary().first().map(|l| l.range == cm.file_location()).unwrap_or(false));
                            if !reported {
                                safe_size_claims.push((crate::interp::node_id(&args[0]), format!("{name}({:?})", args[0])));
                            }
                        }
                    }
                }
            }
        }
    }
    // a `<--` with a division that draws no CS0015 report, in a definition without any IsZero
    // instance, can only have been let through because its divisor is taken for a constant
    // (an IsZero instance can only vouch for a divisor that is its input: a divisor that
    // mentions a name no IsZero input mentions has no such voucher)
    let mut iszero_components: BTreeSet<String> = BTreeSet::new();
    let mut iszero_input_names: BTreeSet<String> = BTreeSet::new();
    for bb in cfg.iter() {
        for s in bb.iter() {
            if let program_structure::ir::Statement::Substitution { var, rhe, .. } = s {
                let inner = match rhe {
                    program_structure::ir::Expression::Update { rhe: inner, .. } => inner.as_ref(),
                    other => other,
                };
                if let program_structure::ir::Expression::Call { name, .. } = inner {
                    if name == "IsZero" {
                        iszero_components.insert(var.name().clone());
                    }
                }
            }
        }
    }
    for bb in cfg.iter() {
        for s in bb.iter() {
            if let program_structure::ir::Statement::Substitution { var, rhe: program_structure::ir::Expression::Update { rhe: inner, .. }, .. } = s {
                if iszero_components.contains(var.name()) {
                    iszero_input_names.extend(expr_names(inner));
                }
            }
        }
    }
    let mut division_claims = 0;
    {
        for bb in cfg.iter() {
            for s in bb.iter() {
                if let program_structure::ir::Statement::Substitution { op: program_structure::ir::AssignOp::AssignSignal, rhe, .. } = s {
                    let inner = match rhe {
                        program_structure::ir::Expression::Update { rhe: inner, .. } => inner.as_ref(),
                        other => other,
                    };
                    if let program_structure::ir::Expression::InfixOp { infix_op: program_structure::ir::ExpressionInfixOpcode::Div, rhe: divisor, .. } = inner {
                        let reported = pass_reports.iter().any(|r| r.id() == "CS0015" && r.primary().first().map(|l| l.range == divisor.meta().file_location()).unwrap_or(false));
                        let names = expr_names(divisor);
                        let vouched = !iszero_components.is_empty() && names.iter().all(|n| iszero_input_names.contains(n));
                        if !reported && !vouched {
                            quadratic_claims.push((crate::interp::node_id(divisor), 0, format!("divisor of a `<--` division that draws no warning (taken for a constant): {divisor:?}")));
                            division_claims += 1;
                        }
                    }
                }
            }
        }
    }
    e.pass_claims = quadratic_claims.len() + always_claims.len() + safe_size_claims.len();
    e.division_claims = division_claims;
    // (2) constants
    let p: BigInt = gen::PRIMES[curve_idx].parse().unwrap();
    let field = Field::new(&p);
    let mut r = Rng::new(oracle_seed);
    for _ in 0..valuations {
        let (cs, ls) = (r.next_u64(), r.next_u64());
        // a signal has a single value: first find the values the signals end up with
        // under these choices, then execute again with them visible from the start
        let mut pre = std::collections::BTreeMap::new();
        let mut stable = false;
        for _ in 0..3 {
            let mut probe = Interp::new(&cfg, &field, Mode::Values, cs, ls, 0);
            probe.judge = false;
            probe.pre_signals = pre.clone();
            probe.run();
            if probe.signals == pre {
                stable = true;
                break;
            }
            pre = probe.signals;
        }
        if !stable {
            continue;
        }
        let mut it = Interp::new(&cfg, &field, Mode::Values, cs, ls, 0);
        it.pre_signals = pre;
        it.run();
        e.value_claims_checked += it.trace.claims_checked;
        for (id, always, text) in &always_claims {
            if let Some(vals) = it.trace.node_values.get(id) {
                for v in vals.iter().flatten() {
                    use num_traits::Zero;
                    if v.is_zero() == *always && it.trace.violation.is_none() {
                        it.trace.violation = Some(crate::interp::ClaimViolation {
                            kind: "finding-wrong:constant-branch-condition".into(),
                            detail: format!("the condition `{text}` is reported as always {always} but evaluates to {v} (path {:?})", it.trace.path),
                        });
                    }
                }
            }
        }
        for (id, text) in &safe_size_claims {
            if let Some(vals) = it.trace.node_values.get(id) {
                for v in vals.iter().flatten() {
                    if *v >= BigInt::from(field.p.bits()) && it.trace.violation.is_none() {
                        it.trace.violation = Some(crate::interp::ClaimViolation {
                            kind: "finding-wrong:size-judged-safe".into(),
                            detail: format!("`{text}` draws no non-strict conversion warning (size judged smaller than the prime) but the size evaluates to {v} (path {:?})", it.trace.path),
                        });
                    }
                }
            }
        }
        if let Some(v) = it.trace.violation {
            e.verdict = Some((v.kind, v.detail));
            return e;
        }
    }
    // (3) degree bounds
    for _ in 0..lines {
        let (judged, v) = check_degrees(&cfg, &field, r.next_u64(), r.next_u64(), &quadratic_claims);
        e.degree_claims_judged += judged;
        if let Some(v) = v {
            e.verdict = Some((v.kind, v.detail));
            return e;
        }
    }
    e
}

/// Base names of the variables, signals and components an expression mentions.
fn expr_names(e: &program_structure::ir::Expression) -> BTreeSet<String> {
    use program_structure::ir::{AccessType, Expression::*};
    let mut out = BTreeSet::new();
    fn walk(e: &program_structure::ir::Expression, out: &mut BTreeSet<String>) {
        match e {
            Variable { name, .. } => {
                out.insert(name.name().clone());
            }
            Access { var, access, .. } | Update { var, access, .. } => {
                out.insert(var.name().clone());
                for a in access {
                    if let AccessType::ArrayAccess(i) = a {
                        walk(i, out);
                    }
                }
                if let Update { rhe, .. } = e {
                    walk(rhe, out);
                }
            }
            Phi { args, .. } => {
                for a in args {
                    out.insert(a.name().clone());
                }
            }
            Number(_, _) => {}
            PrefixOp { rhe, .. } => walk(rhe, out),
            InfixOp { lhe, rhe, .. } => {
                walk(lhe, out);
                walk(rhe, out);
            }
            SwitchOp { cond, if_true, if_false, .. } => {
                walk(cond, out);
                walk(if_true, out);
                walk(if_false, out);
            }
            Call { args, .. } | InlineArray { values: args, .. } => args.iter().for_each(|a| walk(a, out)),
        }
    }
    walk(e, &mut out);
    out
}

/// What a cut may do to the findings of the passes: nothing to those that use no fact,
/// and only take away from those whose presence needs a fact.
const FACT_FREE_IDS: [&str; 5] = ["CS0003", "CS0004", "CS0011", "CS0012", "CS0016"];
const NEEDS_FACT_IDS: [&str; 7] = ["CS0006", "CS0007", "CS0008", "CS0009", "CS0013", "CS0018", "CA01"];

fn cut_relation(uncut: &Eval, cut: &Eval) -> Option<(String, String)> {
    let mut left = uncut.findings.clone();
    for f in &cut.findings {
        if let Some(pos) = left.iter().position(|x| x == f) {
            left.remove(pos);
        } else if FACT_FREE_IDS.contains(&f.0.as_str()) || NEEDS_FACT_IDS.contains(&f.0.as_str()) {
            return Some((format!("finding-gained-by-cut:{}", f.0), format!("only the cut run reports {} `{}` at {}..{}", f.0, f.1, f.2, f.3)));
        }
    }
    if let Some(f) = left.iter().find(|f| FACT_FREE_IDS.contains(&f.0.as_str())) {
        return Some((format!("fact-free-finding-lost-by-cut:{}", f.0), format!("only the uncut run reports {} `{}` at {}..{}", f.0, f.1, f.2, f.3)));
    }
    None
}

/// A small definition lifted before the judged one in half of the cases.
pub fn gen_prelude(seed: u64, i: usize) -> String {
    let mut r = Rng::new(seed).sub_n("C20-prelude", i as u64);
    if r.chance(1, 2) {
        return String::new();
    }
    let mut k = Knobs::all_on(&mut r);
    k.max_stmts = 3 + r.usize(6);
    k.max_depth = 1 + r.usize(2);
    k.anon = false;
    k.tuples = false;
    k.dup_params = false;
    k.custom_templates = false;
    k.big_literals = false;
    k.logs = false;
    let d = gen::gen_single_def(&mut r, &k);
    gen::render_def(&d)
}

pub fn gen_source(seed: u64, i: usize) -> (String, usize) {
    let base = Rng::new(seed).sub_n("C20", i as u64);
    let mut r = base.sub("def");
    let curve_idx = r.usize(3);
    let mut k = Knobs::all_on(&mut r);
    k.prime = curve_idx;
    k.max_depth = 1 + r.usize(3);
    k.max_stmts = 6 + r.usize(16);
    k.expr_depth = 1 + r.usize(3);
    k.anon = false;
    k.tuples = false;
    k.dup_params = false;
    k.custom_templates = false;
    k.big_literals = r.chance(1, 2);
    k.hex = r.chance(1, 3);
    k.logs = false;
    k.array_init_permille = 300;
    // sizes: now and then a definition long enough for several hundred passes per fixpoint,
    // either long all over or an ordinary body behind a long straight-line prefix
    let mut r_size = base.sub("size");
    let size_mode = if r_size.chance(1, 12) { 1 + r_size.usize(2) } else { 0 };
    if size_mode == 1 {
        k.max_stmts = 45 + r.usize(45);
        k.max_depth = 1 + r.usize(2);
    }
    let mut d = gen::gen_single_def(&mut r, &k);
    if size_mode == 2 {
        let n = 70 + r_size.usize(90);
        let mut pre = String::from("var pfx0 = 1 ;");
        for j in 1..n {
            let a = r_size.usize(j);
            let b = r_size.usize(j);
            let op = *r_size.pick(&["+", "*", "-"]);
            pre.push_str(&format!(" var pfx{j} = pfx{a} {op} pfx{b} + {j} ;"));
        }
        // ... and, in templates, the array idiom right behind it (still in the entry block)
        if let Some(inp) = d.inputs.iter().find(|p| p.dims.is_empty()) {
            if d.is_template() {
                let s = &inp.name;
                let deeps = [format!("{s} * {s} * {s}"), format!("{s} * {s}"), format!("{s} * pfx1 * {s} * {s}")];
                let deep = deeps[r_size.usize(3)].clone();
                let first = r_size.usize(2);
                let between = *r_size.pick(&["if ( pfx2 > 64 ) { log ( pfx2 ) ; }", "for ( var pfi = 0 ; pfi < 2 ; pfi ++ ) { log ( pfi ) ; }", ""]);
                pre.push_str(&format!(
                    " var pfa [ 2 ] ; pfa [ {first} ] = {deep} ; {between} pfa [ {} ] = 1 ; signal pfs ; pfs <-- pfa [ {} ] ;",
                    1 - first,
                    r_size.usize(2)
                ));
            }
        }
        d.body.insert(0, gen::Stmt::Raw(pre.split_whitespace().map(|t| t.to_string()).collect()));
    }
    (gen::render_def(&d), curve_idx)
}

struct DefRes {
    evals: usize,
    usable: bool,
    reads: usize,
    cut_points: usize,
    pair_cuts: usize,
    stalls_fired: usize,
    backsteps_fired: usize,
    wall_reads: usize,
    value_claims: usize,
    degree_claims: usize,
    violation: Option<(String, String, Value)>,
    sim_ns: i64,
    facts_lost_by_cut: usize,
    pass_claims: usize,
    relations_judged: usize,
    division_claims: usize,
    long_runs: usize,
    logged_evals: usize,
}

#[derive(Clone)]
struct Sched {
    stalls: Vec<(usize, i64)>,
    /// the wall clock steps back (NTP correction, VM resume) at these clock reads
    wall_back: Vec<(usize, i64)>,
    permille: u32,
    label: String,
}

fn one(scratch: &std::path::Path, seed: u64, i: usize, keys: usize, pairs: usize, valuations: usize, lines: usize) -> DefRes {
    let path = scratch.join(format!("def{i}.circom"));
    let (src, curve_idx) = gen_source(seed, i);
    let prelude = gen_prelude(seed, i);
    let mut res = DefRes { evals: 0, usable: false, reads: 0, cut_points: 0, pair_cuts: 0, stalls_fired: 0, backsteps_fired: 0, wall_reads: 0, value_claims: 0, degree_claims: 0, violation: None, sim_ns: 0, facts_lost_by_cut: 0, pass_claims: 0, relations_judged: 0, division_claims: 0, long_runs: 0, logged_evals: 0 };
    let mut rk = Rng::new(seed).sub_n("C20-sched", i as u64);
    for _ki in 0..keys {
        let key = rk.bytes16();
        let clock_seed = rk.next_u64();
        let oracle_seed = rk.next_u64();
        let mut run = |sched: &Sched, res: &mut DefRes| -> Option<(Eval, usize)> {
            let plan = SimPlan { key, clock_seed, max_step_ns: 50_000, stalls: sched.stalls.clone(), stall_permille: sched.permille, wall_back: sched.wall_back.clone() };
            let s = src.clone();
            let pre = prelude.clone();
            let pth = path.clone();
            let (out, stats) = run_in_sim(&plan, move || evaluate(&pth, &pre, &s, curve_idx, oracle_seed, valuations, lines));
            res.evals += 1;
            res.sim_ns += stats.sim_ns;
            res.stalls_fired += stats.stalls_fired;
            res.backsteps_fired += stats.backsteps_fired;
            res.wall_reads += stats.wall_reads;
            let replay = |sig: &str| {
                json!({"kind": "C20", "seed": seed, "index": i, "source": src, "prelude": prelude, "curve": CURVES[curve_idx],
                       "hashkey": key.iter().map(|b| format!("{b:02x}")).collect::<String>(), "clock_seed": clock_seed, "oracle_seed": oracle_seed,
                       "stalls": sched.stalls, "wall_back": sched.wall_back, "stall_permille": sched.permille, "schedule": sched.label, "signature": sig,
                       "valuations": valuations, "lines": lines})
            };
            match out {
                SimResult::Ok(e) => {
                    if let Some((kind, detail)) = &e.verdict {
                        let stage = if stats.stalls_fired > 0 { "cut" } else { "fixpoint" };
                        let sig = format!("{stage}:{kind}");
                        if res.violation.is_none() {
                            res.violation = Some((sig.clone(), format!("schedule {}: {detail}", sched.label), replay(&sig)));
                        }
                    }
                    Some((e, stats.clock_reads))
                }
                SimResult::Panic(p) => {
                    if stats.stalls_fired > 0 || stats.backsteps_fired > 0 {
                        let site: String = p.split(": ").next().unwrap_or("").rsplit('/').next().unwrap_or("").split(':').next().unwrap_or("").to_string();
                        let head: String = p.splitn(2, ": ").nth(1).unwrap_or("").chars().take(40).collect();
                        let sig = format!("{}:panic:{site}:{head}", if stats.stalls_fired > 0 { "cut" } else { "clock-step" });
                        if res.violation.is_none() {
                            res.violation = Some((sig.clone(), format!("schedule {}: the run does not complete normally: {p}", sched.label), replay(&sig)));
                        }
                    }
                    None
                }
            }
        };
        // fault-free configuration (cut = fixpoint)
        let free = Sched { stalls: vec![], wall_back: vec![], permille: 0, label: "no stall".into() };
        let Some((e0, reads)) = run(&free, &mut res) else { return res }; // panics without any fault are C01's business
        if !e0.lifted {
            return res;
        }
        res.usable = true;
        res.reads = res.reads.max(reads);
        res.value_claims += e0.value_claims_checked;
        res.degree_claims += e0.degree_claims_judged;
        if res.violation.is_some() {
            return res;
        }
        // every single cut index (a sample of them when there are hundreds)
        let cut_indices: Vec<usize> = if reads <= 200 {
            (1..reads).collect()
        } else {
            let mut v: Vec<usize> = (0..64).map(|_| 1 + rk.usize(reads - 1)).collect();
            v.sort();
            v.dedup();
            v
        };
        if reads > 256 {
            res.long_runs += 1;
        }
        for j in cut_indices {
            let s = Sched { stalls: vec![(j, 11_000_000_000 + rk.below(3_600_000_000_000) as i64)], wall_back: vec![], permille: 0, label: format!("stall at clock read {j} of {reads}") };
            if let Some((e, _)) = run(&s, &mut res) {
                res.cut_points += 1;
                if res.violation.is_none() && e.lifted {
                    if let Some((kind, detail)) = cut_relation(&e0, &e) {
                        let sig = format!("cut:{kind}");
                        res.violation = Some((
                            sig.clone(),
                            format!("schedule {}: {detail}", s.label),
                            json!({"kind": "C20", "seed": seed, "index": i, "source": src, "prelude": prelude, "curve": CURVES[curve_idx],
                                   "hashkey": key.iter().map(|b| format!("{b:02x}")).collect::<String>(), "clock_seed": clock_seed, "oracle_seed": oracle_seed,
                                   "stalls": s.stalls, "wall_back": s.wall_back, "stall_permille": s.permille, "schedule": s.label, "signature": sig,
                                   "valuations": valuations, "lines": lines}),
                        ));
                    }
                    res.relations_judged += 1;
                }
                res.value_claims += e.value_claims_checked;
                res.degree_claims += e.degree_claims_judged;
                if e.nodes_with_value < e0.nodes_with_value {
                    res.facts_lost_by_cut += 1;
                }
                res.pass_claims += e.pass_claims;
                res.division_claims += e.division_claims;
            }
            if res.violation.is_some() {
                return res;
            }
        }
        // sampled pairs: value propagation cut at j1, degree propagation cut at a later read
        for _ in 0..pairs {
            if reads < 4 {
                break;
            }
            let j1 = 1 + rk.usize(reads - 2);
            let j2 = j1 + 1 + rk.usize(reads - j1);
            let s = Sched { stalls: vec![(j1, 11_000_000_000), (j2, 11_000_000_000)], wall_back: vec![], permille: 0, label: format!("stalls at clock reads {j1} and {j2} of {reads}") };
            if run(&s, &mut res).is_some() {
                res.pair_cuts += 1;
            }
            if res.violation.is_some() {
                return res;
            }
        }
        // the wall clock steps back between two reads (alone, and before a stall): whichever
        // clock the time box is measured on, the run completes and its claims stay sound
        for _ in 0..pairs.min(4) {
            if reads < 3 {
                break;
            }
            let j1 = 1 + rk.usize(reads - 1);
            let back = *rk.pick(&[2_000_000_000i64, 3_600_000_000_000, 86_400_000_000_000]);
            let mut s = Sched { stalls: vec![], wall_back: vec![(j1, back)], permille: 0, label: format!("wall clock steps back {} s at clock read {j1} of {reads}", back / 1_000_000_000) };
            if rk.chance(1, 2) && j1 + 1 < reads {
                let j2 = j1 + 1 + rk.usize(reads - j1 - 1);
                s.stalls.push((j2, 11_000_000_000));
                s.label.push_str(&format!(", stall at read {j2}"));
            }
            let _ = run(&s, &mut res);
            if res.violation.is_some() {
                return res;
            }
        }
        // random per-read stall rates
        for pm in [20u32, 100, 500, 1000] {
            let s = Sched { stalls: vec![], wall_back: vec![], permille: pm, label: format!("every clock read stalls with probability {pm}/1000") };
            let _ = run(&s, &mut res);
            if res.violation.is_some() {
                return res;
            }
        }
    }
    res
}

pub fn run(env: &Env) -> i32 {
    let t0 = Instant::now();
    let (n, keys, pairs, valuations, lines) = if env.quick() { (500, 1, 4, 6, 3) } else { (2_500, 2, 12, 16, 6) };
    let n = std::env::var("VERIF_RUNS").ok().and_then(|s| s.parse().ok()).unwrap_or(n);
    let seed = env.seed;
    let ldir = env.scratch.join("L");
    let _ = std::fs::create_dir_all(&ldir);
    let next = AtomicUsize::new(0);
    let slots: Vec<Mutex<Option<DefRes>>> = (0..n).map(|_| Mutex::new(None)).collect();
    std::thread::scope(|s| {
        for _ in 0..env.workers {
            s.spawn(|| loop {
                let i = next.fetch_add(1, Ordering::SeqCst);
                if i >= n {
                    break;
                }
                *slots[i].lock().unwrap() = Some(one(&ldir, seed, i, keys, pairs, valuations, lines));
            });
        }
    });
    let mut results: Vec<DefRes> = slots.into_iter().map(|m| m.into_inner().unwrap().unwrap()).collect();
    // second phase: an eighth of the definitions again with every log record built and
    // formatted (what `RUST_LOG=trace` does); a cut run must still complete and claim nothing wrong
    {
        crate::libtier::set_log_level(true);
        let subset: Vec<usize> = (0..n).filter(|i| i % 8 == 3).collect();
        let next = AtomicUsize::new(0);
        let slots: Vec<Mutex<Option<DefRes>>> = (0..subset.len()).map(|_| Mutex::new(None)).collect();
        std::thread::scope(|s| {
            for _ in 0..env.workers {
                s.spawn(|| loop {
                    let j = next.fetch_add(1, Ordering::SeqCst);
                    if j >= subset.len() {
                        break;
                    }
                    *slots[j].lock().unwrap() = Some(one(&ldir, seed, subset[j], 1, 2, 2, 1));
                });
            }
        });
        crate::libtier::set_log_level(false);
        for m in slots {
            let mut r = m.into_inner().unwrap().unwrap();
            if let Some((sig, detail, mut replay)) = r.violation.take() {
                replay["trace_logging"] = json!(true);
                r.violation = Some((format!("with-trace-logging:{sig}"), detail, replay));
            }
            r.logged_evals = r.evals;
            results.push(r);
        }
    }
    let mut seen = BTreeSet::new();
    let mut violations = Vec::new();
    for r in &results {
        if let Some((sig, detail, replay)) = &r.violation {
            if seen.insert(sig.clone()) {
                violations.push(Violation { property: "C20".into(), signature: sig.clone(), detail: detail.clone(), replay: replay.clone() });
            }
        }
    }
    // minimise the source by lines under the same schedule while the signature persists
    for v in violations.iter_mut() {
        if std::env::var("VERIF_NOMIN").is_ok() {
            break;
        }
        let rp = v.replay.clone();
        let sig = v.signature.clone();
        let src = rp["source"].as_str().unwrap_or("").to_string();
        let lines_v: Vec<String> = src.split_inclusive('\n').map(|s| s.to_string()).collect();
        let mut budget = 300usize;
        let kept = crate::minimise::ddmin(lines_v, &mut |ls: &[String]| replay_signature(&rp, &ls.concat()).map(|s| s == sig).unwrap_or(false), &mut budget);
        let small = kept.concat();
        if replay_signature(&rp, &small).map(|s| s == sig).unwrap_or(false) {
            v.replay["source"] = json!(small);
        }
    }
    let wall = t0.elapsed().as_secs_f64();
    let evals: usize = results.iter().map(|r| r.evals).sum();
    let usable = results.iter().filter(|r| r.usable).count();
    let nontrivial = results.iter().filter(|r| r.usable && r.reads >= 5 && r.value_claims + r.degree_claims > 0).count();
    let (s0, c0) = gen_source(seed, 0);
    let mut cov: BTreeMap<String, Value> = BTreeMap::new();
    cov.insert("evaluations".into(), json!(evals));
    cov.insert("definitions".into(), json!(n));
    cov.insert("definitions_lifted".into(), json!(usable));
    cov.insert("distinct_nontrivial".into(), json!(nontrivial));
    cov.insert("rule".into(), json!("one evaluation = parse -> CFG -> SSA of one generated definition under one (hash key, clock schedule) on a simulated thread, then all 13 passes, the value oracle and the degree oracle on the CFG that came back; a definition is non-trivial if its propagation loops read the clock at least 5 times and at least one claim was judged; distinct definitions are distinct generator outputs"));
    cov.insert("samples".into(), json!([{"curve": CURVES[c0], "source": s0}]));
    cov.insert("single_cut_points_enumerated".into(), json!(results.iter().map(|r| r.cut_points).sum::<usize>()));
    cov.insert("pair_cuts_sampled".into(), json!(results.iter().map(|r| r.pair_cuts).sum::<usize>()));
    cov.insert("max_clock_reads_of_one_definition".into(), json!(results.iter().map(|r| r.reads).max().unwrap_or(0)));
    cov.insert("clock_stalls_fired".into(), json!(results.iter().map(|r| r.stalls_fired).sum::<usize>()));
    cov.insert("cuts_that_left_fewer_facts_than_the_fixpoint".into(), json!(results.iter().map(|r| r.facts_lost_by_cut).sum::<usize>()));
    cov.insert("pass_level_claims_matched_to_nodes".into(), json!(results.iter().map(|r| r.pass_claims).sum::<usize>()));
    cov.insert("constant_claims_checked".into(), json!(results.iter().map(|r| r.value_claims).sum::<usize>()));
    cov.insert("degree_claims_judged".into(), json!(results.iter().map(|r| r.degree_claims).sum::<usize>()));
    cov.insert("simulated_seconds".into(), json!(results.iter().map(|r| r.sim_ns as i128).sum::<i128>() as f64 / 1e9));
    cov.insert("runs_per_hour".into(), json!((evals as f64 / wall * 3600.0) as u64));
    cov.insert("fault_kinds_fired".into(), json!({"hash-key": evals, "clock-fine": evals, "clock-stall": results.iter().map(|r| r.stalls_fired).sum::<usize>(), "wall-clock-back-step": results.iter().map(|r| r.backsteps_fired).sum::<usize>()}));
    cov.insert("wall_clock_reads_by_the_code_under_test".into(), json!(results.iter().map(|r| r.wall_reads).sum::<usize>()));
    crate::report::add_probes(
        &mut cov,
        &[
            ("cut run compared with the uncut run (findings of the passes)", results.iter().map(|r| r.relations_judged).sum::<usize>()),
            ("division without warning judged as a constant-divisor claim (cut runs)", results.iter().map(|r| r.division_claims).sum::<usize>()),
            ("definition with more than 256 clock reads (passes)", results.iter().map(|r| r.long_runs).sum::<usize>()),
            ("schedule run with every log record built and formatted", results.iter().map(|r| r.logged_evals).sum::<usize>()),
            ("time box fired", results.iter().map(|r| r.stalls_fired).sum::<usize>()),
            ("a cut left fewer facts than the fixpoint", results.iter().map(|r| r.facts_lost_by_cut).sum::<usize>()),
            ("constant claim judged", results.iter().map(|r| r.value_claims).sum::<usize>()),
            ("degree claim judged", results.iter().map(|r| r.degree_claims).sum::<usize>()),
            ("pass-level claim matched to a node", results.iter().map(|r| r.pass_claims).sum::<usize>()),
            ("pair of cuts", results.iter().map(|r| r.pair_cuts).sum::<usize>()),
        ],
    );
    cov.insert("components".into(), json!({"real": ["parse_definition", "into_cfg", "into_ssa incl. the real time-boxed propagate_values / propagate_degrees loops", "all 13 analysis passes"], "oracle": ["reference interpreter (interp.rs), independent of circom_algebra"], "simulated": ["clock_gettime (stalls at chosen read indices)", "getrandom"], "not_run": ["main.rs", "writers"], "stubbed": ["AnalysisContext: no other definitions"]}));
    Evidence {
        property: "C20".into(),
        tier: env.tier.clone(),
        seed,
        level: "fault_enumeration".into(),
        coverage: cov,
        assumptions: vec![
            "the reference interpreter's operator semantics are written from the Circom documentation; undefined operations (division by zero, complement of 0) skip the sample".into(),
            "degree claims are judged by finite differences along random lines in signal space on a fixed control path; a zero difference does not prove the bound".into(),
            "'before the first pass' is not reachable in the present code (the time-box test sits after the pass)".into(),
        ],
        wall_s: wall,
        violations: violations.len(),
    }
    .write();
    conclude("C20", &violations)
}

/// Re-run a recorded case (optionally with another source) and return the violation signature.
fn replay_signature(v: &Value, src: &str) -> Option<String> {
    crate::libtier::set_log_level(v["trace_logging"].as_bool().unwrap_or(false));
    let r = replay_signature_inner(v, src);
    crate::libtier::set_log_level(false);
    r.map(|s| if v["trace_logging"].as_bool().unwrap_or(false) { format!("with-trace-logging:{s}") } else { s })
}

fn replay_signature_inner(v: &Value, src: &str) -> Option<String> {
    let key_hex = v["hashkey"].as_str().unwrap_or("");
    let mut key = [0u8; 16];
    for k in 0..16 {
        key[k] = u8::from_str_radix(key_hex.get(2 * k..2 * k + 2).unwrap_or("00"), 16).unwrap_or(0);
    }
    let stalls: Vec<(usize, i64)> = serde_json::from_value(v["stalls"].clone()).unwrap_or_default();
    let plan = SimPlan {
        key,
        clock_seed: v["clock_seed"].as_u64().unwrap_or(0),
        max_step_ns: 50_000,
        stalls,
        stall_permille: v["stall_permille"].as_u64().unwrap_or(0) as u32,
        wall_back: serde_json::from_value(v["wall_back"].clone()).unwrap_or_default(),
    };
    let curve_idx = CURVES.iter().position(|c| Some(*c) == v["curve"].as_str()).unwrap_or(0);
    let oracle_seed = v["oracle_seed"].as_u64().unwrap_or(0);
    let valuations = v["valuations"].as_u64().unwrap_or(6) as usize;
    let lines = v["lines"].as_u64().unwrap_or(3) as usize;
    let s = src.to_string();
    let pre = v["prelude"].as_str().unwrap_or("").to_string();
    let dir = crate::procrun::make_scratch();
    let pth = dir.join("replay.circom");
    let (out, stats) = run_in_sim(&plan, move || evaluate(&pth, &pre, &s, curve_idx, oracle_seed, valuations, lines));
    let _ = std::fs::remove_dir_all(&dir);
    match out {
        SimResult::Ok(e) => e.verdict.map(|(k, _)| format!("{}:{k}", if stats.stalls_fired > 0 { "cut" } else { "fixpoint" })),
        SimResult::Panic(p) => {
            if stats.stalls_fired > 0 || stats.backsteps_fired > 0 {
                let site: String = p.split(": ").next().unwrap_or("").rsplit('/').next().unwrap_or("").split(':').next().unwrap_or("").to_string();
                let head: String = p.splitn(2, ": ").nth(1).unwrap_or("").chars().take(40).collect();
                Some(format!("{}:panic:{site}:{head}", if stats.stalls_fired > 0 { "cut" } else { "clock-step" }))
            } else {
                None
            }
        }
    }
}

pub fn replay(_env: &Env, v: &Value) -> i32 {
    let src = v["source"].as_str().unwrap_or("").to_string();
    println!("curve {} schedule: {}\nprelude:\n{}\njudged definition:\n{src}", v["curve"], v["schedule"], v["prelude"].as_str().unwrap_or(""));
    match replay_signature(v, &src) {
        Some(sig) => {
            println!("{sig}");
            println!("VIOLATION property=C20 replay=(replayed)");
            1
        }
        None => {
            println!("replay: no violation");
            0
        }
    }
}
