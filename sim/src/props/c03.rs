//! C03 Report conservation and output contract. The real binary (report cache,
//! writers, filters, exit code) against a reference model of the orchestration
//! layer that calls the same stage code without any cache or writer.

use crate::common::*;
use crate::driver::{harness_error, Env};
use crate::gen::{self, Knobs, ProjectShape, Style};
use crate::libtier::{run_in_sim, SimPlan, SimResult};
use crate::model::{run_model, ModelOutput, ModelReport};
use crate::outparse::{parse_sarif, parse_stdout, Diag, Stdout, Summary};
use crate::procrun::{Exit, Outcome, Runner};
use crate::report::{conclude, Evidence, Violation};
use crate::rng::{hash_str, Rng};
use crate::world::{Case, Fault, ROOT_TOKEN};
use serde_json::{json, Value};
use std::collections::{BTreeMap, BTreeSet};
use std::path::PathBuf;
use std::time::Instant;

/// A displayed or modelled finding reduced to what C03 compares.
#[derive(Clone, Debug, PartialEq, Eq, PartialOrd, Ord)]
struct Key {
    id: String,
    severity: String,
    message: String,
    locus: Option<(String, u32, u32)>,
}

fn key_of_diag(d: &Diag, with_id: bool) -> Key {
    Key {
        id: if with_id { d.code.clone().unwrap_or_default() } else { String::new() },
        severity: d.severity.clone(),
        message: d.message.clone(),
        locus: d.locs.first().map(|l| (l.path.clone(), l.line, l.col)),
    }
}

fn key_of_model(m: &ModelReport, root: &str) -> Key {
    Key {
        id: m.id.clone(),
        severity: m.severity.clone(),
        message: m.message.clone(),
        locus: m.locus.as_ref().map(|(p, l, c)| (p.replace(root, ROOT_TOKEN), *l, *c)),
    }
}

fn rank(sev: &str) -> u8 {
    match sev {
        "error" => 2,
        "warning" => 1,
        _ => 0,
    }
}

fn level_rank(level: &str) -> u8 {
    match level.to_lowercase().as_str() {
        "error" => 2,
        "warning" => 1,
        _ => 0,
    }
}

struct Built {
    project: gen::Project,
    case: Case,
    curve: String,
    preexisting_sarif: bool,
}

fn build(seed: u64, i: usize) -> Built {
    let base = Rng::new(seed).sub_n("C03", i as u64);
    let mut r_proj = base.sub("project");
    let mut r_style = base.sub("style");
    let mut r_plan = base.sub("plan");
    let mut knobs = Knobs::random(&mut r_proj);
    knobs.shadowing = true; // CFG-stage reports are what the cache transports
    knobs.components = true;
    let shape = ProjectShape { max_files: 3, min_defs: 1, max_defs: 6, with_main: true, pragma_always: false, name_suffix: String::new() };
    let mut project = gen::gen_project(&mut r_proj, &knobs, &shape);
    if r_proj.chance(1, 3) {
        project.named = (0..project.files.len()).collect();
    }
    let style = Style::random(&mut r_style);
    let mut world = project.render(&mut r_style, &style);
    let curve = r_proj.pick(&["BN254", "BLS12_381", "GOLDILOCKS"]).to_string();
    let mut opts = Opts::base();
    opts.curve = Some(curve.clone());
    // sometimes the SARIF path already holds a (longer) file from an earlier run
    let preexisting_sarif = r_plan.chance(1, 4);
    if preexisting_sarif {
        let mut junk = String::from("{\n  \"runs\": [ { \"results\": [\n");
        for k in 0..400 {
            junk.push_str(&format!("    {{ \"stale\": {k}, \"message\": {{ \"text\": \"left over from an earlier run\" }} }},\n"));
        }
        junk.push_str("  ] } ]\n}\n");
        world.put("out.sarif", &junk);
    }
    let case = make_case(&project, world, &opts, quiet_plan(&mut r_plan));
    Built { project, case, curve, preexisting_sarif }
}

#[derive(Default)]
struct Res {
    runs: usize,
    model_runs: usize,
    crashed: usize,
    model_failed: usize,
    violation: Option<(String, String, Value)>,
    harness_err: Option<String>,
    orders: usize,
    stage_counts: BTreeMap<String, usize>,
    displayed: usize,
    lattice_points: usize,
    sarif_checked: usize,
    sarif_faults: usize,
    sarif_benign: usize,
    unreadable_include_runs: usize,
    default_level_points: usize,
    fp: u64,
    sim_ns: i64,
    nontrivial: bool,
}

/// Output-contract clauses that need no model: exit code, summary, SARIF.
fn contract(o: &Outcome, out: &Stdout, sarif_requested: bool, sarif_fault: bool) -> Option<(String, String)> {
    let shown = out.diags.len();
    // (ii) exit 0 <=> nothing displayed
    match (&o.exit, shown) {
        (Exit::Code(0), 0) | (Exit::Code(1), 1..) => {}
        (e, n) => return Some(("exit-code-vs-displayed".into(), format!("exit {e:?} with {n} diagnostics displayed"))),
    }
    // (iii) summary count
    match (&out.summary, shown) {
        (Some(Summary::None_), 0) => {}
        (Some(Summary::Count(c)), n) if *c == n && n > 0 => {}
        (s, n) => return Some(("summary-vs-displayed".into(), format!("summary {s:?} with {n} diagnostics displayed"))),
    }
    // (iv) SARIF
    if out.result_written.is_some() {
        if !sarif_requested {
            return Some(("sarif-result-line-without-option".into(), "`Result written` without --sarif-file".into()));
        }
        match &o.sarif {
            None => return Some(("sarif-result-line-without-file".into(), "`Result written` but the file does not exist".into())),
            Some(t) => {
                if let Err(e) = parse_sarif(t) {
                    return Some(("sarif-unparsable".into(), format!("`Result written` but the file does not parse: {e}")));
                }
            }
        }
    }
    if sarif_requested && !sarif_fault {
        let Some(text) = &o.sarif else {
            return Some(("sarif-missing".into(), "--sarif-file given, no write fault, but no file".into()));
        };
        let s = match parse_sarif(text) {
            Ok(s) => s,
            Err(e) => return Some(("sarif-unparsable".into(), format!("the SARIF file does not parse: {e}"))),
        };
        if s.results.len() != shown {
            return Some(("sarif-count-vs-displayed".into(), format!("{} SARIF results, {} displayed", s.results.len(), shown)));
        }
        if shown > 0 && out.result_written.is_none() {
            return Some(("sarif-result-line-missing".into(), "SARIF written with results but no `Result written` line".into()));
        }
        for (r, d) in s.results.iter().zip(out.diags.iter()) {
            let lvl = if d.severity == "note" { "note" } else { d.severity.as_str() };
            let code_ok = d.code.as_ref().map(|c| *c == r.rule_id).unwrap_or(true);
            if r.level != lvl || r.message != d.message || !code_ok {
                return Some((
                    "sarif-result-vs-displayed".into(),
                    format!("SARIF ({}, {}, {:?}) vs displayed ({}, {:?}, {:?})", r.rule_id, r.level, r.message, d.severity, d.code, d.message),
                ));
            }
            if let Some(l) = d.locs.first() {
                let uri = format!("file://{}", l.path);
                let hit = r.locations.iter().chain(r.related.iter()).any(|x| x.uri == uri && x.start_line == l.line as i64 && x.start_col == l.col as i64);
                if !hit {
                    return Some((
                        "sarif-position-vs-displayed".into(),
                        format!("displayed at {}:{}:{} but SARIF has {:?}", l.path, l.line, l.col, r.locations.iter().map(|x| (x.uri.clone(), x.start_line, x.start_col)).collect::<Vec<_>>()),
                    ));
                }
            } else if !r.locations.is_empty() {
                return Some(("sarif-position-vs-displayed".into(), "displayed without location, SARIF with".into()));
            }
        }
        // rule descriptors = distinct (id) of the results
        let ids: BTreeSet<&str> = s.results.iter().map(|r| r.rule_id.as_str()).collect();
        let rules: BTreeSet<&str> = s.rules.iter().map(|r| r.0.as_str()).collect();
        if ids != rules || s.rules.len() != rules.len() {
            return Some(("sarif-rules".into(), format!("rule descriptors {:?} vs result ids {:?}", s.rules, ids)));
        }
    }
    None
}

fn multiset_diff(a: &[Key], b: &[Key]) -> Option<(Option<Key>, Option<Key>)> {
    let mut a: Vec<Key> = a.to_vec();
    let mut b: Vec<Key> = b.to_vec();
    a.sort();
    b.sort();
    let (mut i, mut j) = (0, 0);
    while i < a.len() && j < b.len() {
        if a[i] == b[j] {
            i += 1;
            j += 1;
        } else if a[i] < b[j] {
            return Some((Some(a[i].clone()), None));
        } else {
            return Some((None, Some(b[j].clone())));
        }
    }
    if i < a.len() {
        return Some((Some(a[i].clone()), None));
    }
    if j < b.len() {
        return Some((None, Some(b[j].clone())));
    }
    None
}

fn one(runner: &Runner, seed: u64, i: usize, keys: usize, lattice_budget: usize) -> Res {
    let mut res = Res::default();
    let b = build(seed, i);
    res.fp = hash_str(&serde_json::to_string(&b.case).unwrap_or_default());
    let mut r = Rng::new(seed).sub_n("C03-sched", i as u64);
    let root = runner.root_str();

    let mut violation = |sig: String, detail: String, case: &Case, res: &mut Res| {
        if res.violation.is_none() {
            res.violation = Some((sig, detail, json!({"kind": "C03", "seed": seed, "index": i, "case": case})));
        }
    };

    // unfiltered run
    let o0 = match runner.run(&b.case) {
        Ok(o) => o,
        Err(e) => {
            res.harness_err = Some(e);
            return res;
        }
    };
    res.runs += 1;
    res.sim_ns += o0.sim_ns();
    if crashed(&o0) {
        res.crashed += 1;
        return res;
    }
    let out0 = parse_stdout(&o0.stdout);
    if !out0.unparsed.is_empty() {
        res.harness_err = Some(format!("unparsed stdout lines at index {i}: {:?}", out0.unparsed.first()));
        return res;
    }
    res.displayed = out0.diags.len();
    if let Some((sig, d)) = contract(&o0, &out0, true, false) {
        violation(sig, d, &b.case, &mut res);
        return res;
    }

    // the model, on the sandbox the run just used
    let inputs: Vec<PathBuf> = b.project.named_paths().iter().map(|p| runner.root.join(p)).collect();
    let curve = b.curve.clone();
    let plan = SimPlan::quiet(r.bytes16(), r.next_u64());
    let (mres, _stats) = run_in_sim(&plan, move || {
        let cwd_inputs = inputs.clone();
        run_model(&cwd_inputs, &[], &curve)
    });
    res.model_runs += 1;
    let model: ModelOutput = match mres {
        SimResult::Ok(Ok(m)) => m,
        SimResult::Ok(Err(_)) | SimResult::Panic(_) => {
            res.model_failed += 1;
            return res;
        }
    };
    for m in &model.reports {
        *res.stage_counts.entry(m.stage.clone()).or_default() += 1;
    }
    // (i) conservation, located findings of user files only
    let model_keys: Vec<Key> = model.reports.iter().filter(|m| m.has_primary && m.primary_in_user_file).map(|m| key_of_model(m, &root)).collect();
    let conservation = |out: &Stdout| -> Option<(String, String)> {
        let shown: Vec<Key> = out.diags.iter().filter(|d| !d.locs.is_empty()).map(|d| key_of_diag(d, true)).collect();
        match multiset_diff(&model_keys, &shown) {
            None => None,
            Some((Some(k), _)) => {
                let stage = model.reports.iter().find(|m| key_of_model(m, &root) == k).map(|m| m.stage.clone()).unwrap_or_default();
                Some((format!("lost-report:{stage}-stage:{}", k.id), format!("produced by the {stage} stage but not displayed (or displayed fewer times): {k:?}")))
            }
            Some((_, Some(k))) => Some((format!("extra-report:{}", k.id), format!("displayed but not produced by any stage (or displayed more often than produced): {k:?}"))),
            _ => None,
        }
    };
    if let Some((sig, d)) = conservation(&out0) {
        violation(sig, d, &b.case, &mut res);
        return res;
    }
    // analysing lines = definitions of user files
    {
        let got: BTreeSet<(String, String)> = out0.analyzing.iter().cloned().collect();
        let want: BTreeSet<(String, String)> = model.user_defs.iter().cloned().collect();
        if got != want {
            violation("analysed-set".into(), format!("analysed {got:?}, definitions in user files {want:?}"), &b.case, &mut res);
            return res;
        }
    }
    let mut orders: BTreeSet<String> = BTreeSet::new();
    orders.insert(out0.analyzing.iter().map(|(k, n)| format!("{k}:{n}")).collect::<Vec<_>>().join(","));

    // more hash keys: other analysis and lookup orders
    for _ in 0..keys {
        let mut c = b.case.clone();
        c.plan.set_hashkey(r.bytes16());
        let Ok(o) = runner.run(&c) else { continue };
        res.runs += 1;
        res.sim_ns += o.sim_ns();
        if crashed(&o) {
            res.crashed += 1;
            continue;
        }
        let out = parse_stdout(&o.stdout);
        orders.insert(out.analyzing.iter().map(|(k, n)| format!("{k}:{n}")).collect::<Vec<_>>().join(","));
        if let Some((sig, d)) = contract(&o, &out, true, false).or_else(|| conservation(&out)) {
            violation(sig, d, &c, &mut res);
            return res;
        }
    }
    res.orders = orders.len();
    res.nontrivial = !out0.diags.is_empty() && model.user_defs.len() >= 1;

    // nothing that was named can be loaded: the errors are displayed, so the exit status is 1
    {
        let mut c = b.case.clone();
        let n_named = b.project.named_paths().len();
        let head = c.argv.len() - n_named;
        match r.usize(3) {
            0 => {
                c.argv.truncate(head);
                c.argv.push("ghost.circom".into());
            }
            1 => {
                for p in b.project.named_paths() {
                    corrupt_file(&mut c.world, &p, &Corruption::BadUtf8(0));
                }
            }
            _ => {
                for p in b.project.named_paths() {
                    c.plan.faults.push(Fault { call: "open".into(), errno: libc::EACCES, occurrence: 0, suffix: p });
                }
            }
        }
        if let Ok(o) = runner.run(&c) {
            res.runs += 1;
            if !crashed(&o) {
                let out = parse_stdout(&o.stdout);
                if let Some((sig, d)) = contract(&o, &out, true, false) {
                    violation(format!("{sig}:nothing-loadable"), d, &c, &mut res);
                    return res;
                }
            }
        }
    }
    // a file that is only included resolves but cannot be read: the report the parser makes of
    // that has no location, so no filter may hold it back, whatever the level
    {
        let named: BTreeSet<usize> = b.project.named.iter().copied().collect();
        let reachable_incs: BTreeSet<String> = b.project.files.iter().flat_map(|f| f.includes.iter().map(|s| s.trim_start_matches("./").to_string())).collect();
        let included_only: Vec<String> =
            b.project.files.iter().enumerate().filter(|(k, f)| !named.contains(k) && reachable_incs.contains(&f.path)).map(|(_, f)| f.path.clone()).collect();
        if !included_only.is_empty() {
            let target = r.pick(&included_only).clone();
            let mut c = b.case.clone();
            match r.usize(4) {
                0 => corrupt_file(&mut c.world, &target, &Corruption::BadUtf8(0)),
                1 => c.plan.faults.push(Fault { call: "open".into(), errno: libc::EACCES, occurrence: 0, suffix: target.clone() }),
                2 => c.plan.faults.push(Fault { call: "read".into(), errno: libc::EIO, occurrence: 0, suffix: target.clone() }),
                _ => c.plan.faults.push(Fault { call: "open".into(), errno: libc::EMFILE, occurrence: 0, suffix: target.clone() }),
            }
            let lvl = *r.pick(&["info", "warning", "error"]);
            for a in c.argv.iter_mut() {
                if a == "info" {
                    *a = lvl.to_string();
                }
            }
            if let Ok(o) = runner.run(&c) {
                res.runs += 1;
                res.unreadable_include_runs += 1;
                let consumed = o.events.iter().any(|e| e.path.ends_with(&target) && (e.call == "open" || e.call == "read"));
                if !crashed(&o) && consumed {
                    let out = parse_stdout(&o.stdout);
                    let told = out.diags.iter().any(|d| d.severity == "error" && d.message.contains(&target));
                    if !told {
                        violation(
                            "lost-report:parse-stage:unreadable-include".into(),
                            format!("`{target}` is included, resolves and cannot be read; no error-level report names it (level {lvl}); displayed: {:?}", out.diags.iter().map(|d| d.message.clone()).take(4).collect::<Vec<_>>()),
                            &c,
                            &mut res,
                        );
                        return res;
                    }
                    if let Some((sig, d)) = contract(&o, &out, true, false) {
                        violation(format!("{sig}:unreadable-include"), d, &c, &mut res);
                        return res;
                    }
                }
            }
        }
    }
    // the option lattice over the ids of the unfiltered run (same hash key)
    let ids: Vec<String> = {
        let s: BTreeSet<String> = out0.diags.iter().filter_map(|d| d.code.clone()).collect();
        s.into_iter().collect()
    };
    let mut points: Vec<(String, Vec<String>, bool, bool, bool)> = Vec::new(); // level, allow, verbose, sarif, sarif-fault
    let levels = ["info", "warning", "error"];
    let subsets: Vec<Vec<String>> = if ids.len() <= 3 {
        (0..(1usize << ids.len())).map(|m| ids.iter().enumerate().filter(|(k, _)| m >> k & 1 == 1).map(|(_, x)| x.clone()).collect()).collect()
    } else {
        let mut v = vec![vec![], ids.clone()];
        for _ in 0..6 {
            v.push(ids.iter().filter(|_| r.chance(1, 2)).cloned().collect());
        }
        v
    };
    for l in levels {
        for s in &subsets {
            points.push((l.to_string(), s.clone(), r.chance(1, 2), r.chance(2, 3), false));
        }
    }
    r.shuffle(&mut points);
    points.truncate(lattice_budget);
    // one point with a SARIF file that cannot be created or written
    points.push((levels[r.usize(3)].to_string(), vec![], true, true, true));
    for (level, allow, verbose, sarif, sarif_fault) in points {
        let mut opts = Opts::base();
        opts.curve = Some(b.curve.clone());
        opts.level = Some(if r.chance(1, 3) { level.to_uppercase() } else { level.clone() });
        // the documented default level is WARNING, with or without --verbose
        if level == "warning" && r.chance(1, 2) {
            opts.level = None;
            res.default_level_points += 1;
        }
        opts.allow = allow.clone();
        // an id that never occurs must not matter
        if r.chance(1, 4) {
            opts.allow.push("CS9999".into());
        }
        opts.verbose = verbose;
        opts.sarif = if sarif { Some("out.sarif".into()) } else { None };
        let mut c = make_case(&b.project, b.case.world.clone(), &opts, b.case.plan.clone());
        if sarif_fault {
            let (call, errno) = *r.pick(&[("create", libc::EACCES), ("create", libc::ENOSPC), ("write", libc::ENOSPC), ("write", libc::EIO)]);
            c.plan.faults.push(Fault { call: call.into(), errno, occurrence: 1, suffix: "out.sarif".into() });
            c.world.files.remove("out.sarif");
        }
        // legal but unusual behaviour of the output file: write(2) takes fewer bytes than
        // offered, or is interrupted; the document must come out complete all the same
        if sarif && !sarif_fault && r.chance(1, 3) {
            if r.chance(2, 3) {
                c.plan.shortwrite = 1 + r.below(600) as i64;
            }
            if r.chance(1, 2) {
                c.plan.faults.push(Fault { call: "write".into(), errno: -1, occurrence: 1 + r.below(3) as i64, suffix: "out.sarif".into() });
            }
        }
        let Ok(o) = runner.run(&c) else { continue };
        if o.events.iter().any(|e| e.call == "write" && e.path.ends_with("out.sarif") && e.result_num().map(|n| n == -(libc::EINTR as i64) || (c.plan.shortwrite > 0 && n == c.plan.shortwrite)).unwrap_or(false)) {
            res.sarif_benign += 1;
        }
        res.runs += 1;
        res.sim_ns += o.sim_ns();
        if crashed(&o) {
            res.crashed += 1;
            continue;
        }
        res.lattice_points += 1;
        if sarif {
            res.sarif_checked += 1;
        }
        if sarif_fault {
            res.sarif_faults += 1;
        }
        let out = parse_stdout(&o.stdout);
        if let Some((sig, d)) = contract(&o, &out, sarif, sarif_fault) {
            violation(sig, d, &c, &mut res);
            return res;
        }
        if sarif_fault && out.result_written.is_some() {
            violation("sarif-result-line-after-write-failure".into(), "`Result written` although the file could not be written".into(), &c, &mut res);
            return res;
        }
        // (v) filter law: displayed(level, allow) = filter(displayed(info, {}))
        let lr = level_rank(&level);
        let expect: Vec<Key> = out0
            .diags
            .iter()
            .filter(|d| rank(&d.severity) >= lr && d.code.as_ref().map(|c| !allow.contains(c)).unwrap_or(true))
            .map(|d| key_of_diag(d, verbose))
            .collect();
        let got: Vec<Key> = out.diags.iter().map(|d| key_of_diag(d, verbose)).collect();
        if let Some((a, bdiff)) = multiset_diff(&expect, &got) {
            let (what, k) = match (a, bdiff) {
                (Some(k), _) => ("filtered-out-wrongly", k),
                (_, Some(k)) => ("not-filtered", k),
                _ => continue,
            };
            violation(
                format!("filter-law:{what}"),
                format!("--level {level} --allow {allow:?} verbose={verbose}: {k:?}"),
                &c,
                &mut res,
            );
            return res;
        }
    }
    res
}

pub fn run(env: &Env) -> i32 {
    let t0 = Instant::now();
    let (n, keys, lattice) = if env.quick() { (1500, 4, 8) } else { (25_000, 12, 24) };
    let n = std::env::var("VERIF_RUNS").ok().and_then(|s| s.parse().ok()).unwrap_or(n);
    let seed = env.seed;
    let results: Vec<Res> = env.par_map(n, |runner, i| one(runner, seed, i, keys, lattice));
    if let Some(r) = results.iter().find(|r| r.harness_err.is_some()) {
        harness_error(&format!("C03: {}", r.harness_err.clone().unwrap()));
    }
    let mut seen = BTreeSet::new();
    let mut violations = Vec::new();
    for r in &results {
        if let Some((sig, detail, replay)) = &r.violation {
            if seen.insert(sig.clone()) {
                violations.push(Violation { property: "C03".into(), signature: sig.clone(), detail: detail.clone(), replay: replay.clone() });
            }
        }
    }
    let wall = t0.elapsed().as_secs_f64();
    let runs: usize = results.iter().map(|r| r.runs).sum();
    let mut stages: BTreeMap<String, usize> = BTreeMap::new();
    for r in &results {
        for (k, v) in &r.stage_counts {
            *stages.entry(k.clone()).or_default() += v;
        }
    }
    let nontrivial: BTreeSet<u64> = results.iter().filter(|r| r.nontrivial).map(|r| r.fp).collect();
    let b0 = build(seed, 0);
    let mut cov: BTreeMap<String, Value> = BTreeMap::new();
    cov.insert("evaluations".into(), json!(runs));
    cov.insert("projects".into(), json!(n));
    cov.insert("model_runs".into(), json!(results.iter().map(|r| r.model_runs).sum::<usize>()));
    cov.insert("distinct_nontrivial".into(), json!(nontrivial.len()));
    cov.insert("rule".into(), json!("one evaluation = one child run of the real binary; per project: an unfiltered run compared with the in-process model, further hash keys, then points of the (level x allow-subset x verbose x sarif) lattice; a project is non-trivial if it displays at least one finding for a definition of a user file; distinct by hash of (files, argv, plan)"));
    cov.insert("samples".into(), json!([{"argv": b0.case.argv, "plan": b0.case.plan, "files": b0.case.world.files.keys().collect::<Vec<_>>(), "preexisting_sarif": b0.preexisting_sarif}]));
    cov.insert("reports_by_stage_in_model".into(), json!(stages));
    crate::report::add_probes(
        &mut cov,
        &[
            ("cfg-stage report travelled through the cache", stages.get("cfg").copied().unwrap_or(0)),
            ("lifting error travelled through the cache", stages.get("lift-error").copied().unwrap_or(0)),
            ("parse-stage report", stages.get("parse").copied().unwrap_or(0)),
            ("pass-stage report", stages.get("pass").copied().unwrap_or(0)),
            ("project with two or more analysis orders", results.iter().filter(|r| r.orders >= 2).count()),
            ("SARIF create/write fault fired", results.iter().map(|r| r.sarif_faults).sum::<usize>()),
            ("lattice point without --level", results.iter().map(|r| r.default_level_points).sum::<usize>()),
            ("unreadable included-only file", results.iter().map(|r| r.unreadable_include_runs).sum::<usize>()),
            ("SARIF short or interrupted write fired", results.iter().map(|r| r.sarif_benign).sum::<usize>()),
        ],
    );
    cov.insert("fault_kinds_fired".into(), json!({"hash-key": runs, "clock-fine": runs, "sarif-create-or-write-fails": results.iter().map(|r| r.sarif_faults).sum::<usize>(), "sarif-short-or-interrupted-write": results.iter().map(|r| r.sarif_benign).sum::<usize>()}));
    cov.insert("lattice_points_checked".into(), json!(results.iter().map(|r| r.lattice_points).sum::<usize>()));
    cov.insert("sarif_files_checked".into(), json!(results.iter().map(|r| r.sarif_checked).sum::<usize>()));
    cov.insert("sarif_write_faults_fired".into(), json!(results.iter().map(|r| r.sarif_faults).sum::<usize>()));
    cov.insert("projects_with_2plus_analysis_orders".into(), json!(results.iter().filter(|r| r.orders >= 2).count()));
    cov.insert("diagnostics_displayed_unfiltered".into(), json!(results.iter().map(|r| r.displayed).sum::<usize>()));
    cov.insert("runs_skipped_because_crashed".into(), json!(results.iter().map(|r| r.crashed).sum::<usize>()));
    cov.insert("model_failures_skipped".into(), json!(results.iter().map(|r| r.model_failed).sum::<usize>()));
    cov.insert("simulated_seconds".into(), json!(results.iter().map(|r| r.sim_ns as i128).sum::<i128>() as f64 / 1e9));
    cov.insert("runs_per_hour".into(), json!((runs as f64 / wall * 3600.0) as u64));
    cov.insert("components".into(), json!({"real": ["circomspect binary (runner cache, writers, filters, main)", "stage code inside the model: parser, CFG/SSA generation, all analysis passes"], "model": ["orchestration: no cache, no writer, filter as the property states it"], "simulated": ["getrandom", "clock_gettime"], "fault_injected": ["create/write of the SARIF file"], "stubbed": []}));
    Evidence {
        property: "C03".into(),
        tier: env.tier.clone(),
        seed,
        level: "exploration".into(),
        coverage: cov,
        assumptions: vec![
            "the model shares stage code with the tool, so it decides transport (cache, writers, filters, exit code), not production".into(),
            "reports without any location are outside the conservation and filter clauses (left to C02)".into(),
            "the locus compared is the one codespan prints: earliest primary label in the file of the first label".into(),
        ],
        wall_s: wall,
        violations: violations.len(),
    }
    .write();
    conclude("C03", &violations)
}

pub fn replay(env: &Env, v: &Value) -> i32 {
    let seed = v["seed"].as_u64().unwrap_or(1);
    let index = v["index"].as_u64().unwrap_or(0) as usize;
    let runner = Runner::new(&env.bin, &env.shim, &env.scratch, 0);
    if let Ok(case) = serde_json::from_value::<Case>(v["case"].clone()) {
        if let Ok(o) = runner.run(&case) {
            println!("argv: {:?}\nexit: {:?}\n{}", case.argv, o.exit, o.stdout);
        }
    }
    let (keys, lattice) = if env.quick() { (4, 8) } else { (12, 24) };
    let r = one(&runner, seed, index, keys, lattice);
    if let Some(e) = r.harness_err {
        harness_error(&e);
    }
    match r.violation {
        Some((sig, detail, _)) => {
            println!("{sig}: {detail}");
            println!("VIOLATION property=C03 replay=(replayed)");
            1
        }
        None => {
            println!("replay: no violation");
            0
        }
    }
}
