//! C14 SSA validity and reaching definitions, for every hash order. The SSA
//! form is not a function of the source (phi insertion order, phi argument
//! order, version numbers depend on HashSet iteration), so each generated
//! definition is converted under many hash keys (tier L) and every result is
//! audited statically and by a lock-step path walk against the pre-SSA CFG.

use crate::driver::{harness_error, Env};
use crate::gen::{self, Knobs};
use crate::libtier::{run_in_sim, SimPlan, SimResult};
use crate::report::{conclude, Evidence, Violation};
use crate::rng::{hash_str, Rng};
use program_structure::ast;
use program_structure::cfg::{Cfg, IntoCfg};
use program_structure::constants::Curve;
use program_structure::ir::{AccessType, Expression, Statement, VariableName, VariableType};
use program_structure::report::ReportCollection;
use serde_json::{json, Value};
use std::collections::{BTreeMap, BTreeSet};
use std::sync::atomic::{AtomicUsize, Ordering};
use std::sync::Mutex;
use std::time::Instant;

type VKey = (String, String); // (name, suffix or "")

fn vkey(n: &VariableName) -> VKey {
    (n.name().clone(), n.suffix().clone().unwrap_or_default())
}

/// After SSA the declaration map is keyed by versioned names (while its lookup
/// strips the version), so types are read off the map's entries directly.
fn is_local(cfg: &Cfg, n: &VariableName) -> bool {
    let k = vkey(n);
    cfg.declarations().iter().any(|(name, d)| vkey(name) == k && matches!(d.variable_type(), VariableType::Local))
}

fn declared(cfg: &Cfg, n: &VariableName) -> bool {
    cfg.declarations().iter().any(|(name, _)| name == n)
}

/// Local variables read by an expression, as (name, is the `var` of an Update).
fn reads_of_expr(e: &Expression, out: &mut Vec<(VariableName, bool)>) {
    use Expression::*;
    match e {
        Variable { name, .. } => out.push((name.clone(), false)),
        Access { var, access, .. } => {
            out.push((var.clone(), false));
            for a in access {
                if let AccessType::ArrayAccess(i) = a {
                    reads_of_expr(i, out);
                }
            }
        }
        Update { var, access, rhe, .. } => {
            out.push((var.clone(), true));
            for a in access {
                if let AccessType::ArrayAccess(i) = a {
                    reads_of_expr(i, out);
                }
            }
            reads_of_expr(rhe, out);
        }
        Phi { .. } | Number(_, _) => {}
        PrefixOp { rhe, .. } => reads_of_expr(rhe, out),
        InfixOp { lhe, rhe, .. } => {
            reads_of_expr(lhe, out);
            reads_of_expr(rhe, out);
        }
        SwitchOp { cond, if_true, if_false, .. } => {
            reads_of_expr(cond, out);
            reads_of_expr(if_true, out);
            reads_of_expr(if_false, out);
        }
        Call { args, .. } => args.iter().for_each(|a| reads_of_expr(a, out)),
        InlineArray { values, .. } => values.iter().for_each(|a| reads_of_expr(a, out)),
    }
}

fn reads_of_stmt(s: &Statement) -> Vec<(VariableName, bool)> {
    use Statement::*;
    let mut out = Vec::new();
    match s {
        Declaration { dimensions, .. } => dimensions.iter().for_each(|d| reads_of_expr(d, &mut out)),
        IfThenElse { cond, .. } => reads_of_expr(cond, &mut out),
        Return { value, .. } => reads_of_expr(value, &mut out),
        Substitution { rhe, .. } => reads_of_expr(rhe, &mut out),
        ConstraintEquality { lhe, rhe, .. } => {
            reads_of_expr(lhe, &mut out);
            reads_of_expr(rhe, &mut out);
        }
        LogCall { args, .. } => {
            for a in args {
                if let program_structure::ir::LogArgument::Expr(e) = a {
                    reads_of_expr(e, &mut out);
                }
            }
        }
        Assert { arg, .. } => reads_of_expr(arg, &mut out),
    }
    out
}

fn is_phi(s: &Statement) -> bool {
    matches!(s, Statement::Substitution { rhe: Expression::Phi { .. }, .. })
}

fn dominates(cfg: &Cfg, a: usize, b: usize) -> bool {
    if a == b {
        return true;
    }
    let Some(bb) = cfg.get_basic_block(b) else { return false };
    cfg.get_dominators(bb).iter().any(|d| d.index() == a)
}

/// (a) static audit. Returns the first problem found.
fn audit(cfg: &Cfg) -> Option<(String, String)> {
    // definitions: versioned local -> (block, statement index)
    let mut defs: BTreeMap<(VKey, usize), (usize, usize)> = BTreeMap::new();
    let params: BTreeSet<VKey> = cfg.parameters().iter().map(vkey).collect();
    for bb in cfg.iter() {
        let mut seen_non_phi = false;
        let mut phi_vars: BTreeSet<VKey> = BTreeSet::new();
        for (si, s) in bb.iter().enumerate() {
            if is_phi(s) {
                if seen_non_phi {
                    return Some(("phi-not-at-block-head".into(), format!("block {} statement {si}: {s:?}", bb.index())));
                }
            } else {
                seen_non_phi = true;
            }
            if let Statement::Substitution { var, rhe, .. } = s {
                let local = is_local(cfg, var);
                match (local, var.version()) {
                    (true, None) => return Some(("local-written-without-version".into(), format!("block {}: {s:?}", bb.index()))),
                    (false, Some(_)) => return Some(("signal-or-component-versioned".into(), format!("block {}: {s:?}", bb.index()))),
                    (true, Some(v)) => {
                        if matches!(rhe, Expression::Phi { .. }) && !phi_vars.insert(vkey(var)) {
                            return Some(("two-phis-for-one-variable".into(), format!("block {}: {s:?}", bb.index())));
                        }
                        if params.contains(&vkey(var)) && *v == 0 {
                            return Some(("parameter-version-0-redefined".into(), format!("block {}: {s:?}", bb.index())));
                        }
                        if let Some(prev) = defs.insert((vkey(var), *v), (bb.index(), si)) {
                            return Some((
                                "version-defined-twice".into(),
                                format!("{var:?} defined in block {} statement {} and block {} statement {si}", prev.0, prev.1, bb.index()),
                            ));
                        }
                        if !declared(cfg, var) {
                            return Some(("version-without-declaration".into(), format!("{var:?} (block {})", bb.index())));
                        }
                    }
                    (false, None) => {}
                }
            }
        }
    }
    // reads
    for bb in cfg.iter() {
        for (si, s) in bb.iter().enumerate() {
            if let Statement::Substitution { rhe: Expression::Phi { args, .. }, var, .. } = s {
                // every argument is defined in, or dominates, a predecessor (or is a parameter)
                for a in args {
                    let Some(v) = a.version() else {
                        return Some(("phi-argument-without-version".into(), format!("{s:?}")));
                    };
                    if vkey(a) != vkey(var) {
                        return Some(("phi-argument-of-other-variable".into(), format!("{s:?}")));
                    }
                    let ok = if let Some((db, _)) = defs.get(&(vkey(a), *v)) {
                        bb.predecessors().iter().any(|p| dominates(cfg, *db, *p))
                    } else {
                        // an undefined version may only be a parameter's initial version or the
                        // initial version of an array first touched by an update
                        *v == 0
                    };
                    if !ok {
                        return Some(("phi-argument-not-available-on-any-incoming-path".into(), format!("block {}: {s:?}", bb.index())));
                    }
                }
                continue;
            }
            for (name, by_update) in reads_of_stmt(s) {
                let local = is_local(cfg, &name) || is_local(cfg, &name.without_version());
                if !local {
                    if name.version().is_some() {
                        return Some(("signal-or-component-versioned".into(), format!("block {}: {s:?}", bb.index())));
                    }
                    continue;
                }
                let Some(v) = name.version() else {
                    return Some(("local-read-without-version".into(), format!("block {} statement {si}: {s:?}", bb.index())));
                };
                if !declared(cfg, &name) {
                    return Some(("version-without-declaration".into(), format!("{name:?} read in block {}", bb.index())));
                }
                match defs.get(&(vkey(&name), *v)) {
                    Some((db, ds)) => {
                        let ok = if *db == bb.index() { ds < &si } else { dominates(cfg, *db, bb.index()) };
                        if !ok {
                            return Some((
                                "read-not-dominated-by-definition".into(),
                                format!("{name:?} read in block {} statement {si}, defined in block {db} statement {ds}: {s:?}", bb.index()),
                            ));
                        }
                    }
                    None => {
                        let param0 = params.contains(&vkey(&name)) && *v == 0;
                        if !(param0 || by_update) {
                            return Some(("read-of-version-without-definition".into(), format!("{name:?} in block {} statement {si}: {s:?}", bb.index())));
                        }
                    }
                }
            }
        }
    }
    None
}

fn next_block(cfg: &Cfg, b: usize, take_true: bool) -> Option<usize> {
    let bb = cfg.get_basic_block(b)?;
    let succ: Vec<usize> = {
        let mut v: Vec<usize> = bb.successors().iter().copied().collect();
        v.sort_unstable();
        v
    };
    match bb.statements().last() {
        Some(Statement::IfThenElse { true_index, false_index, .. }) => {
            if take_true {
                Some(*true_index)
            } else {
                match false_index {
                    Some(f) => Some(*f),
                    None => succ.iter().copied().find(|s| s != true_index),
                }
            }
        }
        _ => succ.first().copied(),
    }
}

/// (b) lock-step bounded path walk of the pre-SSA and the SSA CFG.
fn path_walk(pre: &Cfg, ssa: &Cfg, rng: &mut Rng, walks: usize) -> Option<(String, String)> {
    if pre.len() != ssa.len() {
        return Some(("structure-changed-by-ssa".into(), format!("{} blocks before, {} after", pre.len(), ssa.len())));
    }
    for (pb, sb) in pre.iter().zip(ssa.iter()) {
        let n_pre = pb.len();
        let n_ssa = sb.iter().filter(|s| !is_phi(s)).count();
        let succ_a: BTreeSet<usize> = pb.successors().iter().copied().collect();
        let succ_b: BTreeSet<usize> = sb.successors().iter().copied().collect();
        if n_pre != n_ssa || succ_a != succ_b {
            return Some((
                "structure-changed-by-ssa".into(),
                format!("block {}: {n_pre} statements / successors {succ_a:?} before, {n_ssa} non-phi statements / successors {succ_b:?} after", pb.index()),
            ));
        }
    }
    let params: Vec<VKey> = ssa.parameters().iter().map(vkey).collect();
    for _ in 0..walks {
        let mut last: BTreeMap<VKey, usize> = params.iter().map(|p| (p.clone(), 0usize)).collect();
        let mut visits: BTreeMap<usize, usize> = BTreeMap::new();
        let mut b = 0usize;
        let mut steps = 0usize;
        let mut trail: Vec<usize> = vec![0];
        loop {
            *visits.entry(b).or_default() += 1;
            let sb = ssa.get_basic_block(b)?;
            let pb = pre.get_basic_block(b)?;
            // phis first: the incoming version must be an argument
            for s in sb.iter().filter(|s| is_phi(s)) {
                if let Statement::Substitution { var, rhe: Expression::Phi { args, .. }, .. } = s {
                    let k = vkey(var);
                    if let Some(cur) = last.get(&k) {
                        if !args.iter().any(|a| a.version() == &Some(*cur)) {
                            return Some((
                                "phi-misses-incoming-version".into(),
                                format!("path {trail:?}: entering block {b}, `{}` was last written as version {cur}, phi is {s:?}", k.0),
                            ));
                        }
                    }
                    if let Some(v) = var.version() {
                        last.insert(k, *v);
                    }
                }
            }
            let ssa_stmts: Vec<&Statement> = sb.iter().filter(|s| !is_phi(s)).collect();
            for (i, ps) in pb.iter().enumerate() {
                let ss = ssa_stmts[i];
                steps += 1;
                // reads must name the version last written on this path
                let pre_reads = reads_of_stmt(ps);
                let ssa_reads = reads_of_stmt(ss);
                if pre_reads.len() != ssa_reads.len() {
                    return Some(("structure-changed-by-ssa".into(), format!("block {b} statement {i}: `{ps:?}` became `{ss:?}`")));
                }
                for ((pn, _), (sn, _)) in pre_reads.iter().zip(ssa_reads.iter()) {
                    if vkey(pn) != vkey(sn) {
                        return Some(("read-renamed-to-other-variable".into(), format!("block {b}: `{ps:?}` became `{ss:?}`")));
                    }
                    if !is_local(ssa, sn) && !is_local(ssa, &sn.without_version()) {
                        continue;
                    }
                    if let (Some(cur), Some(v)) = (last.get(&vkey(sn)), sn.version()) {
                        if cur != v {
                            return Some((
                                "read-sees-wrong-assignment".into(),
                                format!(
                                    "path {trail:?}: in block {b} `{ss:?}` reads `{}` as version {v}, but the last assignment on this path wrote version {cur}",
                                    sn.name()
                                ),
                            ));
                        }
                    }
                }
                if let Statement::Substitution { var, .. } = ss {
                    if let Some(v) = var.version() {
                        last.insert(vkey(var), *v);
                    }
                }
                if matches!(ss, Statement::Return { .. }) {
                    // the source program stops here
                    steps = usize::MAX / 2;
                    break;
                }
            }
            if steps > 300 {
                break;
            }
            let take_true = rng.chance(1, 2);
            // bound loop unrolling: after 3 visits of a block prefer the edge to a less visited block
            let mut nb = next_block(ssa, b, take_true);
            if let Some(n) = nb {
                if visits.get(&n).copied().unwrap_or(0) >= 3 {
                    nb = next_block(ssa, b, !take_true);
                    if let Some(n2) = nb {
                        if visits.get(&n2).copied().unwrap_or(0) >= 3 {
                            break;
                        }
                    }
                }
            }
            match nb {
                Some(n) => {
                    b = n;
                    trail.push(n);
                }
                None => break,
            }
        }
    }
    None
}

/// (c) source-scope audit. "It sees the same assignment as the original program" starts
/// before SSA: the CFG is built from a renamed copy of the body in which every declaration
/// carries a unique name. This walks the parsed body with its own scope stack, the CFG in
/// block order (lifting keeps source order and maps each simple statement to one IR
/// statement), and demands that the source declaration -> CFG name relation is a bijection.
type DeclId = (String, usize);

struct Scopes {
    stack: Vec<BTreeMap<String, DeclId>>,
    count: BTreeMap<String, usize>,
}

impl Scopes {
    fn resolve(&self, n: &str) -> Option<DeclId> {
        self.stack.iter().rev().find_map(|s| s.get(n).cloned())
    }
    fn declare(&mut self, n: &str) -> DeclId {
        let c = self.count.entry(n.to_string()).or_default();
        let id = (n.to_string(), *c);
        *c += 1;
        self.stack.last_mut().unwrap().insert(n.to_string(), id.clone());
        id
    }
}

#[derive(Default)]
struct SrcStmt {
    /// occurrences outside the declared name: (source name, what it resolves to)
    uses: Vec<(String, Option<DeclId>)>,
    declares: Option<DeclId>,
}

fn ast_uses_expr(e: &ast::Expression, sc: &Scopes, out: &mut Vec<(String, Option<DeclId>)>) {
    use ast::Expression::*;
    match e {
        Variable { name, access, .. } => {
            out.push((name.clone(), sc.resolve(name)));
            for a in access {
                if let ast::Access::ArrayAccess(i) = a {
                    ast_uses_expr(i, sc, out);
                }
            }
        }
        InfixOp { lhe, rhe, .. } => {
            ast_uses_expr(lhe, sc, out);
            ast_uses_expr(rhe, sc, out);
        }
        PrefixOp { rhe, .. } | ParallelOp { rhe, .. } => ast_uses_expr(rhe, sc, out),
        InlineSwitchOp { cond, if_true, if_false, .. } => {
            ast_uses_expr(cond, sc, out);
            ast_uses_expr(if_true, sc, out);
            ast_uses_expr(if_false, sc, out);
        }
        Number(_, _) => {}
        Call { args, .. } => args.iter().for_each(|a| ast_uses_expr(a, sc, out)),
        ArrayInLine { values, .. } | Tuple { values, .. } => values.iter().for_each(|a| ast_uses_expr(a, sc, out)),
        AnonymousComponent { params, signals, .. } => {
            params.iter().for_each(|a| ast_uses_expr(a, sc, out));
            signals.iter().for_each(|a| ast_uses_expr(a, sc, out));
        }
    }
}

fn ast_walk(s: &ast::Statement, sc: &mut Scopes, out: &mut Vec<SrcStmt>) {
    use ast::Statement::*;
    let mut st = SrcStmt::default();
    match s {
        Block { stmts, .. } => {
            sc.stack.push(BTreeMap::new());
            for x in stmts {
                ast_walk(x, sc, out);
            }
            sc.stack.pop();
            return;
        }
        InitializationBlock { initializations, .. } => {
            for x in initializations {
                ast_walk(x, sc, out);
            }
            return;
        }
        While { cond, stmt, .. } => {
            ast_uses_expr(cond, sc, &mut st.uses);
            out.push(st);
            ast_walk(stmt, sc, out);
            return;
        }
        IfThenElse { cond, if_case, else_case, .. } => {
            ast_uses_expr(cond, sc, &mut st.uses);
            out.push(st);
            ast_walk(if_case, sc, out);
            if let Some(e) = else_case {
                ast_walk(e, sc, out);
            }
            return;
        }
        Declaration { name, dimensions, .. } => {
            dimensions.iter().for_each(|d| ast_uses_expr(d, sc, &mut st.uses));
            st.declares = Some(sc.declare(name));
        }
        Substitution { var, access, rhe, .. } => {
            st.uses.push((var.clone(), sc.resolve(var)));
            for a in access {
                if let ast::Access::ArrayAccess(i) = a {
                    ast_uses_expr(i, sc, &mut st.uses);
                }
            }
            ast_uses_expr(rhe, sc, &mut st.uses);
        }
        MultiSubstitution { lhe, rhe, .. } | ConstraintEquality { lhe, rhe, .. } => {
            ast_uses_expr(lhe, sc, &mut st.uses);
            ast_uses_expr(rhe, sc, &mut st.uses);
        }
        LogCall { args, .. } => {
            for a in args {
                if let ast::LogArgument::LogExp(e) = a {
                    ast_uses_expr(e, sc, &mut st.uses);
                }
            }
        }
        Return { value, .. } => ast_uses_expr(value, sc, &mut st.uses),
        Assert { arg, .. } => ast_uses_expr(arg, sc, &mut st.uses),
    }
    out.push(st);
}

/// Some(Err(())) = the two statement sequences do not line up (nothing is judged).
fn scope_audit(def: &ast::Definition, pre: &Cfg) -> Option<Result<(String, String), ()>> {
    let (args, body) = match def {
        ast::Definition::Template { args, body, .. } | ast::Definition::Function { args, body, .. } => (args, body),
    };
    let mut sc = Scopes { stack: vec![BTreeMap::new()], count: BTreeMap::new() };
    for a in args {
        sc.declare(a);
    }
    let mut src: Vec<SrcStmt> = Vec::new();
    ast_walk(body, &mut sc, &mut src);
    let ir: Vec<&Statement> = pre.iter().flat_map(|b| b.iter()).collect();
    if ir.len() != src.len() {
        return Some(Err(()));
    }
    let mut fwd: BTreeMap<DeclId, VKey> = BTreeMap::new();
    let mut back: BTreeMap<VKey, DeclId> = BTreeMap::new();
    for p in pre.parameters().iter() {
        let k = vkey(p);
        let id = (k.0.clone(), 0usize);
        fwd.insert(id.clone(), k.clone());
        back.insert(k, id);
    }
    let mut bind = |id: &DeclId, k: &VKey, what: &str| -> Option<(String, String)> {
        if let Some(k0) = fwd.get(id) {
            if k0 != k {
                return Some((
                    "source-variable-under-two-names".into(),
                    format!("declaration #{} of `{}` is `{}{}` in one place and `{}{}` in `{what}`", id.1, id.0, k0.0, if k0.1.is_empty() { String::new() } else { format!("_{}", k0.1) }, k.0, if k.1.is_empty() { String::new() } else { format!("_{}", k.1) }),
                ));
            }
        }
        if let Some(id0) = back.get(k) {
            if id0 != id {
                return Some((
                    "two-source-variables-under-one-name".into(),
                    format!("declarations #{} and #{} of `{}` are both `{}{}` (seen in `{what}`)", id0.1, id.1, id.0, k.0, if k.1.is_empty() { String::new() } else { format!("_{}", k.1) }),
                ));
            }
        }
        fwd.insert(id.clone(), k.clone());
        back.insert(k.clone(), id.clone());
        None
    };
    for (a, s) in src.iter().zip(ir.iter()) {
        let what = format!("{s:?}");
        let mut names: Vec<VariableName> = reads_of_stmt(s).into_iter().map(|x| x.0).collect();
        match s {
            Statement::Substitution { var, .. } => names.push(var.clone()),
            Statement::Declaration { names: declared, .. } => {
                let Some(id) = &a.declares else { return Some(Err(())) };
                let d: Vec<&VariableName> = declared.iter().collect();
                if d.len() != 1 || d[0].name() != &id.0 {
                    return Some(Err(()));
                }
                if let Some(v) = bind(id, &vkey(d[0]), &what) {
                    return Some(Ok(v));
                }
            }
            _ => {}
        }
        if a.declares.is_some() != matches!(s, Statement::Declaration { .. }) {
            return Some(Err(()));
        }
        // within one statement a source name denotes one declaration
        let src_names: BTreeSet<&String> = a.uses.iter().map(|u| &u.0).collect();
        let ir_names: BTreeSet<&String> = names.iter().map(|n| n.name()).collect();
        if src_names != ir_names {
            return Some(Err(()));
        }
        for (n, id) in &a.uses {
            let Some(id) = id else { continue };
            let keys: BTreeSet<VKey> = names.iter().filter(|x| x.name() == n).map(vkey).collect();
            for k in &keys {
                if let Some(v) = bind(id, k, &what) {
                    return Some(Ok(v));
                }
            }
        }
    }
    None
}

#[derive(Clone)]
struct EvalResult {
    lifted: bool,
    ssa_ok: bool,
    verdict: Option<(String, String)>,
    fingerprint: u64,
    phis: usize,
    phi3: bool,
    scope_judged: bool,
    renamed: bool,
    blocks: usize,
}

fn evaluate(prelude: &str, src: &str, walk_seed: u64, walks: usize) -> EvalResult {
    // another definition converted first on the same thread (it may fail half way, inside
    // nested scopes): nothing it leaves behind may reach the judged definition
    if !prelude.is_empty() {
        if let Some(pd) = parser::parse_definition(prelude) {
            let mut scratch = ReportCollection::new();
            if let Ok(c) = pd.into_cfg(&Curve::default(), &mut scratch) {
                let _ = c.into_ssa();
            }
        }
    }
    let mut r = EvalResult { lifted: false, ssa_ok: false, verdict: None, fingerprint: 0, phis: 0, phi3: false, scope_judged: false, renamed: false, blocks: 0 };
    let d0 = parser::parse_definition(src);
    let Some(d1) = parser::parse_definition(src) else { return r };
    let Some(d2) = parser::parse_definition(src) else { return r };
    let mut reports = ReportCollection::new();
    let Ok(pre) = d1.into_cfg(&Curve::default(), &mut reports) else { return r };
    let mut reports2 = ReportCollection::new();
    let Ok(pre2) = d2.into_cfg(&Curve::default(), &mut reports2) else { return r };
    r.lifted = true;
    r.blocks = pre.len();
    let Ok(ssa) = pre2.into_ssa() else { return r };
    r.ssa_ok = true;
    r.fingerprint = hash_str(&format!("{ssa:?}"));
    for bb in ssa.iter() {
        for s in bb.iter() {
            if let Statement::Substitution { rhe: Expression::Phi { args, .. }, .. } = s {
                r.phis += 1;
                if args.len() >= 3 {
                    r.phi3 = true;
                }
            }
        }
    }
    let scope = d0.as_ref().and_then(|d| scope_audit(d, &pre));
    r.scope_judged = !matches!(scope, Some(Err(())));
    r.renamed = pre.declarations().iter().any(|(n, _)| n.suffix().is_some());
    r.verdict = audit(&ssa).or_else(|| path_walk(&pre, &ssa, &mut Rng::new(walk_seed), walks)).or(scope.and_then(|x| x.ok()));
    r
}

pub fn gen_source(seed: u64, i: usize) -> String {
    let base = Rng::new(seed).sub_n("C14", i as u64);
    let mut r = base.sub("def");
    let mut k = Knobs::random(&mut r);
    // what SSA is sensitive to
    k.loops = true;
    k.ifs = true;
    k.shadowing = true;
    k.dim_exprs = true;
    k.arrays = r.chance(2, 3);
    k.compound = true;
    k.max_depth = 1 + r.usize(3);
    k.max_stmts = 4 + r.usize(14);
    k.anon = false;
    k.tuples = false;
    k.dup_params = false;
    k.custom_templates = false;
    k.big_literals = false;
    k.hex = false;
    k.array_init_permille = 400;
    k.odd_names = r.chance(1, 2);
    let mut d = gen::gen_single_def(&mut r, &k);
    // sizes: some definitions are padded to an exact number of basic blocks around the
    // machine word sizes (dominator and frontier sets are sets of block indices)
    let mut r_size = base.sub("size");
    if r_size.chance(1, 6) {
        let target = *r_size.pick(&[31usize, 32, 33, 63, 64, 64, 65, 127, 128, 128, 129, 192, 256]);
        if let Some(now) = block_count(&gen::render_def(&d)) {
            if now + 2 <= target {
                let mut need = target - now;
                let mut pads: Vec<String> = vec!["var pdz = 0 ;".into()];
                if need % 2 == 1 {
                    pads.push("if ( pdz < 1 ) { pdz = pdz + 1 ; } else { pdz = pdz + 2 ; }".into());
                    need -= 3;
                }
                for j in 0..need / 2 {
                    pads.push(match r_size.usize(3) {
                        0 => format!("if ( pdz < {j} ) {{ pdz = pdz + 1 ; }}"),
                        1 => format!("if ( pdz != {j} ) {{ pdz += {j} ; }}"),
                        _ => "if ( pdz == 0 ) { pdz ++ ; }".to_string(),
                    });
                }
                let raw = gen::Stmt::Raw(pads.join(" ").split_whitespace().map(|t| t.to_string()).collect());
                // functions end in their return statement: the padding goes in front
                let at = r_size.usize(d.body.len().max(1));
                d.body.insert(at.min(d.body.len().saturating_sub(1)), raw);
            }
        }
    }
    gen::render_def(&d)
}

/// Half of the definitions are converted after another one on the same thread: a random
/// definition, or one whose conversion fails inside nested scopes that hold versions of
/// the names the generator likes to use.
pub fn gen_prelude(seed: u64, i: usize) -> String {
    let mut r = Rng::new(seed).sub_n("C14-prelude", i as u64);
    match r.usize(4) {
        0 => {
            let mut k = Knobs::random(&mut r);
            k.max_stmts = 3 + r.usize(6);
            k.anon = false;
            k.tuples = false;
            k.dup_params = false;
            k.custom_templates = false;
            gen::render_def(&gen::gen_single_def(&mut r, &k))
        }
        1 => {
            let names = ["acc", "lc", "tmp", "x", "y", "z", "v", "k", "arr1", "arr2", "x_0", "x_1", "e2", "mat1", "pdz", "i", "j"];
            let late = *r.pick(&["late_one", "zq", "n_late"]);
            let mut body = String::new();
            for nm in names.iter() {
                if r.chance(1, 3) {
                    continue;
                }
                if r.chance(1, 2) {
                    body.push_str(&format!("var {nm} [ 2 ] ; {nm} [ 0 ] = n ; {nm} [ 1 ] = {nm} [ 0 ] + 1 ; "));
                } else {
                    body.push_str(&format!("var {nm} = n ; {nm} = {nm} + 1 ; "));
                }
            }
            let nest = match r.usize(3) {
                0 => format!("if ( n > 0 ) {{ {body} r = r + {late} ; }}"),
                1 => format!("for ( var i = 0 ; i < n ; i ++ ) {{ {body} if ( i > 1 ) {{ r = r + {late} ; }} }}"),
                _ => format!("if ( n > 0 ) {{ {body} }} else {{ {body} while ( r < 3 ) {{ r = r + {late} ; }} }}"),
            };
            format!("function pfail ( n ) {{ var r = 0 ; {nest} var {late} = 1 ; return r + {late} ; }}")
        }
        _ => String::new(),
    }
}

fn block_count(src: &str) -> Option<usize> {
    // lifting may panic on what the generator wrote (C01's business): measure inside the simulator
    let s = src.to_string();
    let (out, _) = run_in_sim(&SimPlan::quiet([7u8; 16], 7), move || {
        let d = parser::parse_definition(&s)?;
        let mut reports = ReportCollection::new();
        d.into_cfg(&Curve::default(), &mut reports).ok().map(|c| c.len())
    });
    match out {
        SimResult::Ok(n) => n,
        SimResult::Panic(_) => None,
    }
}

struct DefRes {
    evals: usize,
    usable: bool,
    fingerprints: BTreeSet<u64>,
    violation: Option<(String, String, Value)>,
    panics: usize,
    phis: usize,
    phi3: bool,
    scope_judged: bool,
    renamed: bool,
    blocks: usize,
    sim_ns: i64,
    stalls_fired: usize,
    logged: bool,
}

fn one(seed: u64, i: usize, keys: usize, walks: usize, logged: bool) -> DefRes {
    let src = gen_source(seed, i);
    let prelude = gen_prelude(seed, i);
    let mut res = DefRes { evals: 0, usable: false, fingerprints: BTreeSet::new(), violation: None, panics: 0, phis: 0, phi3: false, scope_judged: false, renamed: false, blocks: 0, sim_ns: 0, stalls_fired: 0, logged: false };
    let mut rk = Rng::new(seed).sub_n("C14-keys", i as u64);
    for k in 0..keys {
        let key = rk.bytes16();
        let mut plan = SimPlan::quiet(key, rk.next_u64());
        // a quarter of the runs on a stalling clock: whatever is time-boxed on the way to
        // SSA form may be cut short, the form that comes back must still be valid
        if rk.chance(1, 4) {
            plan.stall_permille = *rk.pick(&[100, 500, 1000]);
        }
        let stall_permille = plan.stall_permille;
        let clock_seed = plan.clock_seed;
        let s = src.clone();
        let walk_seed = rk.next_u64();
        let pre = prelude.clone();
        let (out, stats) = run_in_sim(&plan, move || evaluate(&pre, &s, walk_seed, walks));
        res.evals += 1;
        res.sim_ns += stats.sim_ns;
        res.stalls_fired += stats.stalls_fired;
        match out {
            SimResult::Ok(e) => {
                if !e.lifted {
                    break; // does not parse or lift: nothing to audit for any key
                }
                if !e.ssa_ok {
                    continue;
                }
                res.usable = true;
                res.fingerprints.insert(e.fingerprint);
                res.phis = res.phis.max(e.phis);
                res.phi3 |= e.phi3;
                res.scope_judged |= e.scope_judged;
                res.blocks = e.blocks;
                res.renamed |= e.renamed && e.scope_judged;
                if let Some((sig, detail)) = e.verdict {
                    res.violation = Some((
                        sig,
                        detail,
                        json!({"kind": "C14", "seed": seed, "index": i, "key_index": k, "hashkey": key.iter().map(|b| format!("{b:02x}")).collect::<String>(), "walk_seed": walk_seed, "walks": walks, "source": src, "prelude": prelude, "trace_logging": logged, "stall_permille": stall_permille, "clock_seed": clock_seed}),
                    ));
                    break;
                }
            }
            SimResult::Panic(_) => {
                res.panics += 1; // C01's business
            }
        }
    }
    res
}

pub fn run(env: &Env) -> i32 {
    let t0 = Instant::now();
    let (n, keys, walks) = if env.quick() { (3000, 24, 24) } else { (20_000, 128, 48) };
    let n = std::env::var("VERIF_RUNS").ok().and_then(|s| s.parse().ok()).unwrap_or(n);
    let seed = env.seed;
    let next = AtomicUsize::new(0);
    let slots: Vec<Mutex<Option<DefRes>>> = (0..n).map(|_| Mutex::new(None)).collect();
    std::thread::scope(|s| {
        for _ in 0..env.workers {
            s.spawn(|| loop {
                let i = next.fetch_add(1, Ordering::SeqCst);
                if i >= n {
                    break;
                }
                *slots[i].lock().unwrap() = Some(one(seed, i, keys, walks, false));
            });
        }
    });
    let mut results: Vec<DefRes> = slots.into_iter().map(|m| m.into_inner().unwrap().unwrap()).collect();
    // second phase: a fifth of the definitions again with every log record built and formatted
    // (what `RUST_LOG=trace` does): logging must not change the form that comes back
    {
        crate::libtier::set_log_level(true);
        let subset: Vec<usize> = (0..n).filter(|i| i % 5 == 2).collect();
        let next = AtomicUsize::new(0);
        let slots: Vec<Mutex<Option<DefRes>>> = (0..subset.len()).map(|_| Mutex::new(None)).collect();
        std::thread::scope(|s| {
            for _ in 0..env.workers {
                s.spawn(|| loop {
                    let j = next.fetch_add(1, Ordering::SeqCst);
                    if j >= subset.len() {
                        break;
                    }
                    *slots[j].lock().unwrap() = Some(one(seed, subset[j], keys.min(8), walks, true));
                });
            }
        });
        crate::libtier::set_log_level(false);
        for m in slots {
            let mut r = m.into_inner().unwrap().unwrap();
            if let Some((sig, detail, replay)) = r.violation.take() {
                r.violation = Some((format!("with-trace-logging:{sig}"), detail, replay));
            }
            r.logged = true;
            results.push(r);
        }
    }
    let mut seen = BTreeSet::new();
    let mut violations = Vec::new();
    for r in &results {
        if let Some((sig, detail, replay)) = &r.violation {
            if seen.insert(sig.clone()) {
                violations.push(Violation { property: "C14".into(), signature: sig.clone(), detail: detail.clone(), replay: replay.clone() });
            }
        }
    }
    // minimise the source by lines while the same signature persists under the same key
    for v in violations.iter_mut() {
        if std::env::var("VERIF_NOMIN").is_ok() {
            break;
        }
        let src = v.replay["source"].as_str().unwrap_or("").to_string();
        let key_hex = v.replay["hashkey"].as_str().unwrap_or("").to_string();
        let mut key = [0u8; 16];
        for k in 0..16 {
            key[k] = u8::from_str_radix(&key_hex[2 * k..2 * k + 2], 16).unwrap_or(0);
        }
        let walk_seed = v.replay["walk_seed"].as_u64().unwrap_or(0);
        let stall_pm = v.replay["stall_permille"].as_u64().unwrap_or(0) as u32;
        let cseed = v.replay["clock_seed"].as_u64().unwrap_or(1);
        let logged = v.replay["trace_logging"].as_bool().unwrap_or(false);
        crate::libtier::set_log_level(logged);
        let sig = v.signature.trim_start_matches("with-trace-logging:").to_string();
        let prelude = v.replay["prelude"].as_str().unwrap_or("").to_string();
        let lines: Vec<String> = src.split_inclusive('\n').map(|s| s.to_string()).collect();
        let mut budget = 400usize;
        let kept = crate::minimise::ddmin(
            lines,
            &mut |ls: &[String]| {
                let s: String = ls.concat();
                let mut plan = SimPlan::quiet(key, cseed);
                plan.stall_permille = stall_pm;
                let pre = prelude.clone();
                let (out, _) = run_in_sim(&plan, move || evaluate(&pre, &s, walk_seed, walks));
                matches!(out, SimResult::Ok(e) if e.verdict.as_ref().map(|(x, _)| *x == sig).unwrap_or(false))
            },
            &mut budget,
        );
        let small: String = kept.concat();
        let mut plan = SimPlan::quiet(key, cseed);
        plan.stall_permille = stall_pm;
        let s2 = small.clone();
        let pre = prelude.clone();
        let (out, _) = run_in_sim(&plan, move || evaluate(&pre, &s2, walk_seed, walks));
        if matches!(out, SimResult::Ok(e) if e.verdict.as_ref().map(|(x, _)| *x == sig).unwrap_or(false)) {
            v.replay["source"] = json!(small);
        }
        crate::libtier::set_log_level(false);
    }
    let wall = t0.elapsed().as_secs_f64();
    let evals: usize = results.iter().map(|r| r.evals).sum();
    let usable = results.iter().filter(|r| r.usable).count();
    let nontrivial = results.iter().filter(|r| r.usable && r.phis > 0).count();
    let fps: usize = results.iter().map(|r| r.fingerprints.len()).sum();
    let mut cov: BTreeMap<String, Value> = BTreeMap::new();
    cov.insert("evaluations".into(), json!(evals));
    cov.insert("definitions".into(), json!(n));
    cov.insert("definitions_converted_to_ssa".into(), json!(usable));
    cov.insert("distinct_nontrivial".into(), json!(nontrivial));
    cov.insert("rule".into(), json!("one evaluation = parse_definition -> into_cfg -> into_ssa of one generated definition under one hash key on a fresh simulated thread, followed by the static audit and the lock-step path walk; a definition is non-trivial if its SSA form contains at least one phi statement; distinct definitions are distinct generator outputs (index)"));
    cov.insert("samples".into(), json!([gen_source(seed, 0), gen_source(seed, 1)]));
    cov.insert("hash_keys_per_definition".into(), json!(keys));
    cov.insert("distinct_ssa_namings_reached_total".into(), json!(fps));
    cov.insert("definitions_with_2plus_ssa_namings".into(), json!(results.iter().filter(|r| r.fingerprints.len() >= 2).count()));
    cov.insert("max_ssa_namings_for_one_definition".into(), json!(results.iter().map(|r| r.fingerprints.len()).max().unwrap_or(0)));
    cov.insert("definitions_with_phi_of_3plus_arguments".into(), json!(results.iter().filter(|r| r.phi3).count()));
    cov.insert("walks_per_evaluation".into(), json!(walks));
    cov.insert("panics_skipped".into(), json!(results.iter().map(|r| r.panics).sum::<usize>()));
    cov.insert("simulated_seconds".into(), json!(results.iter().map(|r| r.sim_ns as i128).sum::<i128>() as f64 / 1e9));
    cov.insert("runs_per_hour".into(), json!((evals as f64 / wall * 3600.0) as u64));
    cov.insert("fault_kinds_fired".into(), json!({"hash-key": evals, "clock-fine": evals, "clock-stall": results.iter().map(|r| r.stalls_fired).sum::<usize>()}));
    crate::report::add_probes(
        &mut cov,
        &[
            ("definition with two or more SSA namings", results.iter().filter(|r| r.fingerprints.len() >= 2).count()),
            ("phi with three or more arguments", results.iter().filter(|r| r.phi3).count()),
            ("conversion on a stalling clock", results.iter().map(|r| r.stalls_fired).sum::<usize>()),
            ("definition whose block count is a multiple of 64", results.iter().filter(|r| r.usable && r.blocks > 0 && r.blocks % 64 == 0).count()),
            ("definition with 100 or more blocks", results.iter().filter(|r| r.usable && r.blocks >= 100).count()),
            ("conversion with every log record built and formatted", results.iter().filter(|r| r.logged).map(|r| r.evals).sum::<usize>()),
            ("source-scope audit judged", results.iter().filter(|r| r.scope_judged).count()),
            ("source-scope audit judged a definition with a renamed declaration", results.iter().filter(|r| r.renamed).count()),
        ],
    );
    cov.insert("components".into(), json!({"real": ["parser::parse_definition", "into_cfg (lifting, unique_vars)", "into_ssa (phi insertion, renaming, declarations, propagation)"], "simulated": ["getrandom (hash key per run)", "clock_gettime"], "not_run": ["main.rs", "writers", "analysis passes"], "stubbed": []}));
    Evidence {
        property: "C14".into(),
        tier: env.tier.clone(),
        seed,
        level: "exploration".into(),
        coverage: cov,
        assumptions: vec![
            "structural sanity of the CFG (C12) is a precondition; SSA conversion must leave block structure and non-phi statements in place".into(),
            "reads with no earlier write on the walked path (uninitialised variables) are not judged".into(),
            "an undefined version is accepted only as a parameter's version 0 or as the array version an `update` starts from".into(),
        ],
        wall_s: wall,
        violations: violations.len(),
    }
    .write();
    let _ = harness_error as fn(&str) -> !;
    conclude("C14", &violations)
}

pub fn replay(_env: &Env, v: &Value) -> i32 {
    let src = v["source"].as_str().unwrap_or("").to_string();
    let key_hex = v["hashkey"].as_str().unwrap_or("").to_string();
    let mut key = [0u8; 16];
    for k in 0..16 {
        key[k] = u8::from_str_radix(&key_hex[2 * k..2 * k + 2], 16).unwrap_or(0);
    }
    let walk_seed = v["walk_seed"].as_u64().unwrap_or(0);
    let walks = v["walks"].as_u64().unwrap_or(24) as usize;
    println!("{src}");
    let mut plan = SimPlan::quiet(key, v["clock_seed"].as_u64().unwrap_or(1));
    plan.stall_permille = v["stall_permille"].as_u64().unwrap_or(0) as u32;
    crate::libtier::set_log_level(v["trace_logging"].as_bool().unwrap_or(false));
    let prelude = v["prelude"].as_str().unwrap_or("").to_string();
    if !prelude.is_empty() {
        println!("converted first on the same thread:\n{prelude}\njudged definition:");
    }
    let (out, _) = run_in_sim(&plan, move || evaluate(&prelude, &src, walk_seed, walks));
    match out {
        SimResult::Ok(e) => match e.verdict {
            Some((sig, detail)) => {
                println!("{sig}: {detail}");
                println!("VIOLATION property=C14 replay=(replayed)");
                1
            }
            None => {
                println!("replay: no violation (lifted={} ssa={})", e.lifted, e.ssa_ok);
                0
            }
        },
        SimResult::Panic(p) => {
            println!("replay: panic {p}");
            0
        }
    }
}
