//! C19 Includes: each reachable file is read and parsed once, cycles
//! terminate, resolution is relative-then-library, an unresolvable include is
//! an error at the include statement, only named files are reported on, and
//! included definitions inform the analysis of the named files.

use crate::common::*;
use crate::driver::{harness_error, Env};
use crate::findings::{describe, first_difference, rel_path, with_positions, NF};
use crate::gen::{self, Def, FileUnit, Knobs, Layout, Registry, Style};
use crate::outparse::parse_stdout;
use crate::procrun::{Outcome, Runner};
use crate::report::{conclude, Evidence, Violation};
use crate::rng::{hash_str, Rng};
use crate::world::{Case, Fault, World, ROOT_TOKEN};
use serde_json::{json, Value};
use std::collections::{BTreeMap, BTreeSet};
use std::path::{Path, PathBuf};
use std::time::Instant;

#[derive(Clone, Debug)]
struct Node {
    dir: String,
    name: String,
    defs: Vec<Def>,
    /// (target node, spelling)
    includes: Vec<(usize, String)>,
    /// spellings that resolve to nothing
    bad_includes: Vec<String>,
}

impl Node {
    fn path(&self) -> String {
        if self.dir.is_empty() { self.name.clone() } else { format!("{}/{}", self.dir, self.name) }
    }
}

struct Built {
    nodes: Vec<Node>,
    world: World,
    layout: Layout,
    argv_inputs: Vec<String>,
    libs: Vec<String>,
    case: Case,
    style: Style,
    style_seed: u64,
    /// index of the node with an unresolvable include, and the spelling
    bad: Option<(usize, String)>,
    shapes: Vec<&'static str>,
}

fn relative_spelling(from_dir: &str, to: &str, rng: &mut Rng, world_dirs: &[&str]) -> String {
    // path of `to` (sandbox relative) as seen from `from_dir`
    let up = if from_dir.is_empty() { 0 } else { from_dir.split('/').count() };
    let mut s = String::new();
    // common-prefix free: always climb to the root and descend again, unless same dir
    let (to_dir, to_name) = match to.rfind('/') {
        Some(i) => (&to[..i], &to[i + 1..]),
        None => ("", to),
    };
    if to_dir == from_dir {
        s.push_str(to_name);
    } else {
        for _ in 0..up {
            s.push_str("../");
        }
        s.push_str(to);
    }
    match rng.usize(6) {
        0 => format!("./{s}"),
        1 if !world_dirs.is_empty() => {
            // redundant detour through an existing directory: d/../
            let d = rng.pick(world_dirs);
            let d_rel = if from_dir.is_empty() {
                d.to_string()
            } else {
                let mut x = String::new();
                for _ in 0..up {
                    x.push_str("../");
                }
                x.push_str(d);
                x
            };
            let back: String = d.split('/').map(|_| "../").collect();
            // from from_dir: go to d, come back to root, then to target
            format!("{d_rel}/{back}{to}")
        }
        2 => format!("{ROOT_TOKEN}/{to}"),
        _ => s,
    }
}

fn build(seed: u64, i: usize) -> Built {
    let base = Rng::new(seed).sub_n("C19", i as u64);
    let mut r = base.sub("graph");
    let mut r_defs = base.sub("defs");
    let mut r_style = base.sub("style");
    let mut r_plan = base.sub("plan");
    let mut shapes: Vec<&'static str> = Vec::new();

    let n = 2 + r.usize(6);
    let dirs_pool = ["", "", "lib", "sub", "sub/deep", "lib2"];
    let mut nodes: Vec<Node> = (0..n)
        .map(|k| Node { dir: if k == 0 { String::new() } else { r.pick(&dirs_pool).to_string() }, name: format!("f{k}.circom"), defs: vec![], includes: vec![], bad_includes: vec![] })
        .collect();
    // two files with one name in different directories (a local file shadowing a library file)
    for k in 2..n {
        if r.chance(1, 5) {
            let j = 1 + r.usize(k - 1);
            if nodes[j].dir != nodes[k].dir && !nodes.iter().any(|x| x.dir == nodes[k].dir && x.name == nodes[j].name) {
                nodes[k].name = nodes[j].name.clone();
                shapes.push("same-name-in-two-directories");
            }
        }
    }
    // two files in one directory whose names differ in letter case only
    let mut case_pair: Option<(usize, usize)> = None;
    if n >= 3 && r.chance(1, 10) {
        let j = 1 + r.usize(n - 1);
        let k = 1 + r.usize(n - 1);
        if j != k {
            nodes[k].dir = nodes[j].dir.clone();
            nodes[k].name = format!("F{j}.circom");
            nodes[j].name = format!("f{j}.circom");
            case_pair = Some((j, k));
            shapes.push("names-differing-in-case-only");
        }
    }
    // included files need not be called `*.circom`: only named inputs and library files do
    let mut odd_ext: BTreeSet<usize> = BTreeSet::new();
    let mut stem_dir: Option<(usize, usize)> = None;
    for k in 1..n {
        if r.chance(1, 10) && nodes.iter().filter(|x| x.name == nodes[k].name).count() == 1 && case_pair.map(|(a, b)| a != k && b != k).unwrap_or(true) {
            let ext = r.pick(&["inc", "txt", "circom.bak", "CIRCOM", ""]);
            nodes[k].name = if ext.is_empty() { format!("f{k}") } else { format!("f{k}.{ext}") };
            odd_ext.insert(k);
            shapes.push("included-file-with-another-extension");
        }
    }
    // a directory called like the stem of a file next to it (`f2.circom` beside `f2/`):
    // byte order and component order of the two paths disagree
    if n >= 3 && r.chance(1, 8) {
        let j = 1 + r.usize(n - 1);
        let k = 1 + r.usize(n - 1);
        if j != k && nodes[j].name.ends_with(".circom") && !odd_ext.contains(&k) && case_pair.map(|(a, b)| a != k && b != k && a != j && b != j).unwrap_or(true) {
            let stem = nodes[j].name.trim_end_matches(".circom").to_string();
            let d = if nodes[j].dir.is_empty() { stem } else { format!("{}/{stem}", nodes[j].dir) };
            if !nodes.iter().any(|x| x.dir == d && x.name == nodes[k].name) {
                nodes[k].dir = d;
                stem_dir = Some((j, k));
                shapes.push("directory-named-like-a-file-stem");
            }
        }
    }
    // forward edges (j > i): chain / diamond material
    let mut edges: Vec<(usize, usize)> = Vec::new();
    for a in 0..n {
        for b in (a + 1)..n {
            let p = if b == a + 1 { 3 } else { 1 };
            if r.chance(p, 4) {
                edges.push((a, b));
            }
        }
    }
    // deliberate shape: a library file shadowed by a local file of the same name; one
    // includer reaches the name through -L, another (next to the local file) locally
    let mut force_bare: BTreeSet<(usize, usize)> = BTreeSet::new();
    let mut force_lib = false;
    if n >= 5 && r.chance(1, 8) {
        let (l, y, bnode) = (n - 1, n - 2, n - 3);
        if let Some((sj, sk)) = stem_dir {
            if [l, y, bnode].contains(&sj) || [l, y, bnode].contains(&sk) {
                stem_dir = None;
            }
        }
        if let Some((cj, ck)) = case_pair {
            if [l, y, bnode].contains(&cj) || [l, y, bnode].contains(&ck) {
                case_pair = None;
            }
        }
        for k in [l, y, bnode] {
            if odd_ext.remove(&k) {
                nodes[k].name = format!("f{k}.circom");
            }
        }
        nodes[l].dir = "lib".into();
        nodes[y].dir = "sub".into();
        nodes[y].name = nodes[l].name.clone();
        nodes[bnode].dir = "sub".into();
        nodes[bnode].name = format!("f{bnode}.circom");
        edges.retain(|e| *e != (bnode, l) && *e != (0, y));
        for e in [(0, l), (0, bnode), (bnode, y)] {
            if !edges.contains(&e) {
                edges.push(e);
            }
            force_bare.insert(e);
        }
        force_bare.remove(&(0, bnode));
        if r.chance(1, 2) {
            // includer order on the stack decides which resolution comes first
            edges.reverse();
        }
        force_lib = true;
        shapes.push("library-file-shadowed-by-local-file");
    }
    // diamonds arise from forward edges; cycles and self-includes from back edges
    if r.chance(1, 3) {
        let a = r.usize(n);
        let b = r.usize(n);
        if a > b {
            edges.push((a, b));
            shapes.push("cycle");
        } else if a == b {
            edges.push((a, a));
            shapes.push("self-include");
        }
    }
    // diamond detection: some node with >= 2 incoming forward edges
    for t in 0..n {
        if edges.iter().filter(|(a, b)| *b == t && a < b).count() >= 2 {
            shapes.push("diamond");
            break;
        }
    }
    // definitions: last node first so that includers can reference what they include
    let mut knobs = Knobs::random(&mut r_defs);
    knobs.max_stmts = knobs.max_stmts.min(6);
    knobs.circomlib_names = false;
    knobs.dup_params = false;
    knobs.custom_templates = false;
    let tnames = ["T", "U", "V", "W", "A", "B", "Mix", "Gate"];
    let fnames = ["f", "g", "h", "sel", "nbits", "log2", "pw", "mx"];
    for k in (0..n).rev() {
        let mut reg = Registry::default();
        for (a, b) in &edges {
            if *a == k && *b > k {
                for d in &nodes[*b].defs {
                    if d.is_template() {
                        reg.templates.push(d.clone());
                    } else {
                        reg.functions.push((d.name.clone(), d.params.len()));
                    }
                }
            }
        }
        let mut k2 = knobs.clone();
        k2.components = true;
        k2.calls = true;
        let nd = 1 + r_defs.usize(2);
        for j in 0..nd {
            let d = if j == 0 || r_defs.chance(2, 3) {
                gen::gen_template(&mut r_defs, &k2, &reg, &format!("{}{k}", tnames[(k + j) % tnames.len()]))
            } else {
                gen::gen_function(&mut r_defs, &k2, &reg, &format!("{}{k}", fnames[(k + j) % fnames.len()]))
            };
            if d.is_template() {
                reg.templates.push(d.clone());
            } else {
                reg.functions.push((d.name.clone(), d.params.len()));
            }
            nodes[k].defs.push(d);
        }
    }
    // two byte-identical files in two directories whose (identical) relative include leads
    // to two different files: `v1/index.circom` and `v2/index.circom`, each `include "impl.circom"`
    let mut identical: Option<(usize, usize)> = None;
    if r.chance(1, 10) {
        let base_n = nodes.len();
        for (v, d) in ["v1", "v2"].iter().enumerate() {
            nodes.push(Node { dir: d.to_string(), name: "index.circom".into(), defs: vec![], includes: vec![], bad_includes: vec![] });
            let mut imp = Node { dir: d.to_string(), name: "impl.circom".into(), defs: vec![], includes: vec![], bad_includes: vec![] };
            let reg = Registry::default();
            imp.defs.push(gen::gen_template(&mut r_defs, &knobs, &reg, &format!("Impl{v}")));
            nodes.push(imp);
        }
        // f0 includes both index files, each index file includes the impl.circom beside it
        for v in 0..2 {
            let idx = base_n + 2 * v;
            let sp = format!("v{}/index.circom", v + 1);
            nodes[0].includes.push((idx, sp));
            nodes[idx].includes.push((idx + 1, "impl.circom".into()));
        }
        identical = Some((base_n, base_n + 2));
        shapes.push("identical-files-with-relative-includes");
    }
    let n = nodes.len();
    // libraries
    let mut world = World::default();
    let mut libs: Vec<String> = Vec::new();
    let has_lib_nodes = nodes.iter().any(|x| x.dir == "lib");
    let lib_dir_given = has_lib_nodes && (force_lib || r.chance(2, 3));
    if lib_dir_given {
        libs.push(r.pick(&["lib", "lib/", "./lib", "sub/../lib", "lib/../lib", "@ROOT@/lib"]).to_string());
        shapes.push("library-dir");
    }
    // a second library directory (cycles and diamonds may then span two libraries)
    let lib2_given = nodes.iter().any(|x| x.dir == "lib2") && r.chance(3, 4);
    if lib2_given {
        let l2 = r.pick(&["lib2", "./lib2", "lib2/"]).to_string();
        if r.chance(1, 2) {
            libs.insert(0, l2);
        } else {
            libs.push(l2);
        }
        shapes.push("second-library-dir");
    }
    let given_lib_dirs: Vec<&str> = [("lib", lib_dir_given), ("lib2", lib2_given)].iter().filter(|x| x.1).map(|x| x.0).collect();
    let mut lib_file: Option<usize> = None;
    if r.chance(1, 5) {
        let k = 1 + r.usize(n - 1);
        if !odd_ext.contains(&k) {
            libs.push(nodes[k].path());
            lib_file = Some(k);
            shapes.push("library-file");
        }
    }
    let all_dirs: Vec<String> = {
        let mut d: BTreeSet<String> = nodes.iter().map(|x| x.dir.clone()).filter(|d| !d.is_empty()).collect();
        d.insert("sub".into());
        d.into_iter().collect()
    };
    let dir_refs: Vec<&str> = all_dirs.iter().map(|s| s.as_str()).collect();
    // spellings
    let mut via_library: Vec<(String, String)> = Vec::new();
    let mut link_count = 0;
    for (a, b) in edges.clone() {
        let from_dir = nodes[a].dir.clone();
        let to = nodes[b].path();
        let choice = r.usize(10);
        // a bare name only reaches the library if no file of that name sits next to the includer
        let local_clash = nodes.iter().any(|x| x.dir == from_dir && x.name == nodes[b].name && x.path() != to);
        let spelling = if force_bare.contains(&(a, b)) {
            nodes[b].name.clone()
        } else if given_lib_dirs.contains(&nodes[b].dir.as_str())
            && from_dir != nodes[b].dir
            && choice < 4
            && !local_clash
            // with two libraries the first one that has the name wins: only use the bare
            // name if no other given library holds a file of that name
            && !nodes.iter().any(|x| x.name == nodes[b].name && x.dir != nodes[b].dir && given_lib_dirs.contains(&x.dir.as_str()))
        {
            // through the library directory: bare name, no local file of that name
            shapes.push("via-library-dir");
            via_library.push((from_dir.clone(), nodes[b].name.clone()));
            nodes[b].name.clone()
        } else if lib_file == Some(b) && nodes[b].dir != from_dir && choice < 6 && !local_clash {
            shapes.push("via-library-file");
            nodes[b].name.clone()
        } else if choice == 4 {
            // symlinked file in the includer's directory
            link_count += 1;
            let link = format!("ln{link_count}.circom");
            let link_path = if from_dir.is_empty() { link.clone() } else { format!("{from_dir}/{link}") };
            world.symlinks.insert(link_path, format!("{ROOT_TOKEN}/{to}"));
            shapes.push("symlinked-file");
            link
        } else if choice == 5 && !nodes[b].dir.is_empty() {
            // symlinked directory at the root
            link_count += 1;
            let link = format!("ld{link_count}");
            world.symlinks.insert(link.clone(), format!("{ROOT_TOKEN}/{}", nodes[b].dir));
            shapes.push("symlinked-dir");
            let up: String = if from_dir.is_empty() { String::new() } else { from_dir.split('/').map(|_| "../").collect() };
            format!("{up}{link}/{}", nodes[b].name)
        } else {
            relative_spelling(&from_dir, &to, &mut r, &dir_refs)
        };
        nodes[a].includes.push((b, spelling));
    }
    // sometimes the same file twice under two spellings
    if r.chance(1, 4) {
        if let Some(&(a, b)) = edges.first() {
            let s = relative_spelling(&nodes[a].dir.clone(), &nodes[b].path(), &mut r, &dir_refs);
            nodes[a].includes.push((b, s));
            shapes.push("double-spelling");
        }
    }
    // an unresolvable include
    let mut bad = None;
    let mut twin_bad: Option<(usize, usize, String)> = None;
    let bad_k = r.usize(n);
    if r.chance(1, 4) && identical.map(|(a, b)| bad_k != a && bad_k != b).unwrap_or(true) {
        let k = bad_k;
        let mut s = r.pick(&["nonexistent.circom", "./missing/x.circom", "../nowhere.circom", "lib/ghost.circom"]).to_string();
        // near misses of the library rules: a library file only answers to its bare name, a
        // library directory never answers to a spelling that starts with a dot
        if let (Some(lf), true) = (lib_file, r.chance(1, 2)) {
            s = format!("{}/{}", r.pick(&["vendor", "lib9", "sub/none"]), nodes[lf].name);
            shapes.push("unresolvable-include:directory-before-library-file-name");
        } else if r.chance(1, 4) {
            // the bare name of a file that lives next to some other file of the graph, but
            // not next to this one (and, unless the reference resolver says otherwise, in no library)
            let others: Vec<usize> = (0..n).filter(|&j| nodes[j].dir != nodes[k].dir && !nodes.iter().any(|x| x.dir == nodes[k].dir && x.name == nodes[j].name)).collect();
            if !others.is_empty() {
                s = nodes[*r.pick(&others)].name.clone();
                shapes.push("unresolvable-include:bare-name-of-a-file-elsewhere");
            }
        } else if !given_lib_dirs.is_empty() && r.chance(1, 4) {
            // `../name`: next to the parent of a library directory there is such a file, next
            // to the parent of the includer there is none; a library never answers to a dot
            let d = *r.pick(&given_lib_dirs);
            let parent = match d.rfind('/') {
                Some(p) => d[..p].to_string(),
                None => String::new(),
            };
            let cands: Vec<usize> = (0..n).filter(|&j| nodes[j].dir == parent).collect();
            if !cands.is_empty() {
                s = format!("../{}", nodes[*r.pick(&cands)].name);
                shapes.push("unresolvable-include:dot-dot-spelling-beside-a-library");
            }
        } else if !given_lib_dirs.is_empty() && r.chance(1, 3) {
            let d = *r.pick(&given_lib_dirs);
            let in_lib: Vec<usize> = (0..n).filter(|&j| nodes[j].dir == d).collect();
            if !in_lib.is_empty() && nodes[k].dir != d {
                let j = *r.pick(&in_lib);
                if !nodes.iter().any(|x| x.dir == nodes[k].dir && x.name == nodes[j].name) {
                    s = format!("./{}", nodes[j].name);
                    shapes.push("unresolvable-include:dot-spelling-of-library-name");
                }
            }
        }
        nodes[k].bad_includes.push(s.clone());
        // the same unresolvable spelling in a second file (below: at the same byte offset,
        // as under a shared licence header): each statement gets its own error
        if n >= 2 && r.chance(1, 3) {
            let k2 = (k + 1 + r.usize(n - 1)) % n;
            if !odd_ext.contains(&k2) && !odd_ext.contains(&k) && identical.map(|(a, b)| k2 != a && k2 != b).unwrap_or(true) {
                nodes[k2].bad_includes.push(s.clone());
                twin_bad = Some((k, k2, s.clone()));
                shapes.push("unresolvable-include:same-spelling-in-two-files");
            }
        }
        bad = Some((k, s));
        shapes.push("unresolvable-include");
    }
    // the first named file starts with a byte-order mark. Today such a file is rejected as a
    // whole (nothing is judged then); a tool that accepts it must still get positions right
    let bom0 = r.chance(1, 20) && identical.is_none();
    if bom0 {
        if nodes[0].bad_includes.is_empty() {
            nodes[0].bad_includes.push("nonexistent.circom".into());
            if bad.is_none() {
                bad = Some((0, "nonexistent.circom".into()));
            }
        }
        shapes.push("byte-order-mark-in-a-named-file");
    }
    // files
    let style = Style::random(&mut r_style);
    let style_seed = r_style.next_u64();
    let units: Vec<FileUnit> = nodes
        .iter()
        .map(|nd| {
            let mut incs: Vec<String> = nd.includes.iter().map(|(_, s)| s.clone()).collect();
            incs.extend(nd.bad_includes.iter().cloned());
            FileUnit { path: nd.path(), pragma: Some("2.1.0".into()), custom_pragma: false, includes: incs, defs: nd.defs.clone(), main: None }
        })
        .collect();
    // a file that demands an unsupported compiler version is reported, but its includes are
    // still followed and its definitions still inform the analysis
    let mut units = units;
    if r.chance(1, 6) {
        let k = r.usize(units.len());
        units[k].pragma = Some(r.pick(&["2.2.0", "2.1.9", "3.0.0", "1.0.0"]).to_string());
        shapes.push("unsupported-pragma-in-the-graph");
    }
    let project = gen::Project { files: units, named: vec![0], libs: vec![] };
    let (w, layout) = project.render_with_layout(&mut Rng::new(style_seed), &style);
    for (p, b) in w.files {
        world.files.insert(p, b);
    }
    world.dirs.push("sub".into());
    if bom0 {
        let t = format!("{}{}", '\u{feff}', world.get_text(&nodes[0].path()).unwrap_or(""));
        world.put(&nodes[0].path(), &t);
    }
    if let Some((ia, ib)) = identical {
        let t = world.get_text(&nodes[ia].path()).unwrap_or("").to_string();
        world.put(&nodes[ib].path(), &t);
    }
    // align the two statements of the twin on one byte offset: blanks at the end of line 1
    if let Some((ka, kb, sp)) = &twin_bad {
        let off = |w: &World, k: usize| -> Option<usize> {
            let t = w.get_text(&nodes[k].path())?;
            let pos = t.find(&format!("\"{sp}\""))?;
            t[..pos].rfind("include")
        };
        if let (Some(oa), Some(ob)) = (off(&world, *ka), off(&world, *kb)) {
            let (short, pad) = if oa < ob { (*ka, ob - oa) } else { (*kb, oa - ob) };
            if pad > 0 {
                let path = nodes[short].path();
                let t = world.get_text(&path).unwrap_or("").to_string();
                if let Some(eol) = t.find('\n') {
                    let at = if eol > 0 && t.as_bytes()[eol - 1] == b'\r' { eol - 1 } else { eol };
                    let inc = t.find("include").unwrap_or(0);
                    if at < inc {
                        let padded = format!("{}{}{}", &t[..at], " ".repeat(pad), &t[at..]);
                        world.put(&path, &padded);
                    }
                }
            }
        }
    }
    // named inputs
    let mut argv_inputs: Vec<String> = Vec::new();
    let mode = r.usize(10);
    if mode == 0 {
        argv_inputs.push(".".into());
        shapes.push("directory-input");
    } else {
        argv_inputs.push(nodes[0].path());
        for k in 1..n {
            if r.chance(1, 4) && !odd_ext.contains(&k) {
                argv_inputs.push(nodes[k].path());
            }
        }
        if let (Some((cj, ck)), true) = (case_pair, r.chance(1, 2)) {
            for k in [cj, ck] {
                if !argv_inputs.contains(&nodes[k].path()) {
                    argv_inputs.push(nodes[k].path());
                }
            }
        }
        if let Some((sj, sk)) = stem_dir {
            for k in [sj, sk] {
                if !argv_inputs.contains(&nodes[k].path()) {
                    argv_inputs.push(nodes[k].path());
                }
            }
        }
        if let Some((ka, kb, _)) = &twin_bad {
            for k in [*ka, *kb] {
                if !argv_inputs.contains(&nodes[k].path()) {
                    argv_inputs.push(nodes[k].path());
                }
            }
        }
        if mode == 1 {
            argv_inputs.reverse();
        }
    }
    let mut plan = quiet_plan(&mut r_plan);
    // the local candidate of an include that is meant for a library may fail with
    // something other than ENOENT (a symlink loop, an unsearchable directory, a plain
    // file in the way): the library lookup must still happen
    if !via_library.is_empty() && r_plan.chance(1, 3) {
        let (from_dir, name) = via_library[r_plan.usize(via_library.len())].clone();
        let errno = *r_plan.pick(&[libc::ELOOP, libc::EACCES, libc::ENOTDIR, libc::ENAMETOOLONG]);
        let suffix = if from_dir.is_empty() { format!("/r/{name}") } else { format!("/r/{from_dir}/{name}") };
        plan.faults.push(Fault { call: "realpath".into(), errno, occurrence: 0, suffix });
        shapes.push("local-candidate-fails-with-other-errno");
    }
    if argv_inputs == ["."] {
        plan.dirseed = r_plan.next_u64() | 1;
    }
    let mut argv = Opts::base().argv();
    for l in &libs {
        argv.push("-L".into());
        argv.push(l.clone());
    }
    argv.extend(argv_inputs.iter().cloned());
    let case = Case { world: world.clone(), argv, plan };
    Built { nodes, world, layout, argv_inputs, libs, case, style, style_seed, bad, shapes }
}

/// Reference resolver, evaluated on the pristine materialised sandbox.
struct Resolved {
    named: BTreeSet<PathBuf>,
    reachable: BTreeSet<PathBuf>,
    /// (including file, spelling) that resolve to nothing
    unresolved: Vec<(PathBuf, String)>,
}

fn collect_circom(dir: &Path, out: &mut Vec<PathBuf>, depth: usize) {
    if depth > 8 {
        return;
    }
    if let Ok(rd) = std::fs::read_dir(dir) {
        for e in rd.flatten() {
            let p = e.path();
            if p.is_dir() {
                collect_circom(&p, out, depth + 1);
            } else if p.extension().map(|x| x == "circom").unwrap_or(false) {
                out.push(p);
            }
        }
    }
}

fn reference_resolve(root: &Path, b: &Built, include_map: &BTreeMap<PathBuf, Vec<String>>) -> Resolved {
    let abs = |s: &str| -> PathBuf {
        let s = s.replace(ROOT_TOKEN, &root.to_string_lossy());
        if s.starts_with('/') { PathBuf::from(s) } else { root.join(s) }
    };
    let mut named = BTreeSet::new();
    for a in &b.argv_inputs {
        let p = abs(a);
        if p.is_dir() {
            let mut v = Vec::new();
            collect_circom(&p, &mut v, 0);
            for f in v {
                if let Ok(c) = std::fs::canonicalize(&f) {
                    named.insert(c);
                }
            }
        } else if let Ok(c) = std::fs::canonicalize(&p) {
            named.insert(c);
        }
    }
    let libs: Vec<(bool, PathBuf)> = b
        .libs
        .iter()
        .map(|l| {
            let p = abs(l);
            (p.is_dir(), p)
        })
        .collect();
    let mut reachable = BTreeSet::new();
    let mut unresolved = Vec::new();
    let mut stack: Vec<PathBuf> = named.iter().cloned().collect();
    while let Some(f) = stack.pop() {
        if !reachable.insert(f.clone()) {
            continue;
        }
        let dir = f.parent().unwrap_or(root).to_path_buf();
        for spelling in include_map.get(&f).cloned().unwrap_or_default() {
            let s = spelling.replace(ROOT_TOKEN, &root.to_string_lossy());
            let mut target: Option<PathBuf> = std::fs::canonicalize(dir.join(&s)).ok();
            if target.is_none() {
                for (is_dir, lp) in &libs {
                    if *is_dir {
                        if s.starts_with('.') {
                            continue;
                        }
                        if let Ok(c) = std::fs::canonicalize(lp.join(&s)) {
                            target = Some(c);
                            break;
                        }
                    } else if !s.contains('/') && lp.file_name().map(|n| n.to_string_lossy() == s).unwrap_or(false) {
                        if let Ok(c) = std::fs::canonicalize(lp) {
                            target = Some(c);
                            break;
                        }
                    }
                }
            }
            match target {
                Some(t) => stack.push(t),
                None => unresolved.push((f.clone(), spelling.clone())),
            }
        }
    }
    Resolved { named, reachable, unresolved }
}

struct Res {
    runs: usize,
    violation: Option<(String, String, Value)>,
    harness_err: Option<String>,
    crashed: usize,
    shapes: Vec<&'static str>,
    files_reachable: usize,
    files_total: usize,
    reads_checked: usize,
    twin_checked: bool,
    bad_checked: bool,
    fp: u64,
    sim_ns: i64,
    faults_fired: usize,
    syntactic_damage_judged: usize,
}

fn consumption_counts(o: &Outcome, root: &Path) -> (BTreeMap<PathBuf, usize>, Vec<String>) {
    // count open..read-to-EOF sequences per canonical path
    let mut counts: BTreeMap<PathBuf, usize> = BTreeMap::new();
    let mut open_now: BTreeMap<String, bool> = BTreeMap::new(); // path -> saw data
    let mut raw_paths = Vec::new();
    for e in &o.events {
        match e.call.as_str() {
            "open" => {
                if e.result_num().map(|v| v >= 0).unwrap_or(false) {
                    open_now.insert(e.path.clone(), false);
                    raw_paths.push(e.path.clone());
                }
            }
            "read" => {
                if let Some(n) = e.result_num() {
                    if n > 0 {
                        open_now.insert(e.path.clone(), true);
                    } else if n == 0 {
                        if open_now.remove(&e.path).is_some() {
                            let p = e.path.replace(ROOT_TOKEN, &root.to_string_lossy());
                            let c = std::fs::canonicalize(&p).unwrap_or_else(|_| PathBuf::from(&p));
                            *counts.entry(c).or_default() += 1;
                        }
                    }
                }
            }
            _ => {}
        }
    }
    (counts, raw_paths)
}

fn judge(runner: &Runner, b: &Built, o: &Outcome, full: bool) -> Option<(String, String)> {
    let root = runner.root.clone();
    // include spellings per canonical file
    let mut include_map: BTreeMap<PathBuf, Vec<String>> = BTreeMap::new();
    let mut node_of: BTreeMap<PathBuf, usize> = BTreeMap::new();
    for (k, nd) in b.nodes.iter().enumerate() {
        if let Ok(c) = std::fs::canonicalize(root.join(nd.path())) {
            let mut v: Vec<String> = nd.includes.iter().map(|(_, s)| s.clone()).collect();
            v.extend(nd.bad_includes.iter().cloned());
            include_map.insert(c.clone(), v);
            node_of.insert(c, k);
        }
    }
    let rr = reference_resolve(&root, b, &include_map);
    if o.budget_exceeded() {
        return Some(("no-termination:event-budget".into(), format!("intercepted-call budget exceeded; shapes {:?}", b.shapes)));
    }
    let out = parse_stdout(&o.stdout);
    if b.shapes.contains(&"byte-order-mark-in-a-named-file") {
        let p0 = b.nodes[0].path();
        let rejected = out.diags.iter().any(|d| d.severity == "error" && d.locs.first().map(|l| rel_path(&l.path) == p0 && l.line == 1 && l.col == 1).unwrap_or(false));
        if rejected {
            return None;
        }
    }
    // (b) each reachable file consumed exactly once, nothing else read
    let (counts, _) = consumption_counts(o, &root);
    for f in rr.reachable.iter().filter(|_| full) {
        let c = counts.get(f).copied().unwrap_or(0);
        if c != 1 {
            let rel = f.strip_prefix(&root).unwrap_or(f).display().to_string();
            let how = if c == 0 { "never-read" } else { "read-more-than-once" };
            return Some((format!("{how}"), format!("`{rel}` is reachable through includes and was read {c} time(s); shapes {:?}", b.shapes)));
        }
    }
    for (f, c) in counts.iter().filter(|_| full) {
        if !rr.reachable.contains(f) && (f.extension().map(|x| x == "circom").unwrap_or(false) || node_of.contains_key(f)) && *c > 0 {
            let rel = f.strip_prefix(&root).unwrap_or(f).display().to_string();
            return Some(("read-unreachable-file".into(), format!("`{rel}` is not reachable from the named files but was read")));
        }
    }
    // (c) analysing lines exactly for the definitions of named files
    let mut expect: BTreeSet<(String, String)> = BTreeSet::new();
    for f in &rr.named {
        if let Some(&k) = node_of.get(f) {
            for d in &b.nodes[k].defs {
                expect.insert((d.kind_str().to_string(), d.name.clone()));
            }
        }
    }
    let got: BTreeSet<(String, String)> = out.analyzing.iter().cloned().collect();
    // a definition the tool had to drop (with an error displayed inside it) is C02's business
    let dropped: BTreeSet<(String, String)> = out
        .diags
        .iter()
        .filter(|d| d.severity == "error")
        .filter_map(|d| d.locs.first())
        .filter_map(|l| b.layout.def_at(&rel_path(&l.path), l.line as usize))
        .map(|d| (d.0.clone(), d.1.clone()))
        .collect();
    let expect: BTreeSet<(String, String)> = expect.difference(&dropped).cloned().collect();
    let got: BTreeSet<(String, String)> = got.difference(&dropped).cloned().collect();
    if got != expect {
        let missing: Vec<_> = expect.difference(&got).collect();
        let extra: Vec<_> = got.difference(&expect).collect();
        let sig = if !extra.is_empty() { "analysed-definition-of-included-only-file" } else { "named-definition-not-analysed" };
        return Some((sig.into(), format!("missing {missing:?} extra {extra:?}; named {:?}; shapes {:?}", b.argv_inputs, b.shapes)));
    }
    // (d) every located finding lies in a named file
    for d in &out.diags {
        if let Some(l) = d.locs.first() {
            let p = l.path.replace(ROOT_TOKEN, &root.to_string_lossy());
            let c = std::fs::canonicalize(&p).unwrap_or_else(|_| PathBuf::from(&p));
            if !rr.named.contains(&c) {
                return Some(("finding-in-included-only-file".into(), format!("{}: {} at {}", d.severity, d.message, l.path)));
            }
        }
    }
    // (e) unresolvable include of a named file: an error at the include statement
    for (f, spelling) in rr.unresolved.iter().filter(|_| full) {
        if !rr.named.contains(f) {
            continue;
        }
        let Some(&k) = node_of.get(f) else { continue };
        let path = b.nodes[k].path();
        let text = b.world.get_text(&path).unwrap_or("");
        // line:col of the `include` keyword of that statement
        let needle = format!("\"{spelling}\"");
        let Some(pos) = text.find(&needle) else { continue };
        let inc_pos = text[..pos].rfind("include").unwrap_or(pos);
        let line = text[..inc_pos].matches('\n').count() + 1;
        let col = inc_pos - text[..inc_pos].rfind('\n').map(|x| x + 1).unwrap_or(0) + 1;
        let found = out.diags.iter().any(|d| {
            d.severity == "error"
                && d.locs.first().map(|l| rel_path(&l.path) == path && l.line as usize == line && l.col as usize == col).unwrap_or(false)
        });
        if !found {
            let errs: Vec<String> = out.diags.iter().filter(|d| d.severity == "error").map(|d| format!("{} @ {:?}", d.message, d.locs.first())).collect();
            return Some((
                "unresolvable-include-not-reported-at-statement".into(),
                format!("include \"{spelling}\" in `{path}` (line {line}, col {col}) cannot be resolved; errors shown: {errs:?}"),
            ));
        }
    }
    None
}

/// The include-vs-inline twin: everything reachable pasted into one file.
fn inline_twin(b: &Built, reachable_nodes: &[usize], named_node: usize) -> (World, Layout, Vec<String>) {
    let mut defs: Vec<Def> = b.nodes[named_node].defs.clone();
    for &k in reachable_nodes {
        if k != named_node {
            defs.extend(b.nodes[k].defs.iter().cloned());
        }
    }
    let own: Vec<String> = b.nodes[named_node].defs.iter().map(|d| d.name.clone()).collect();
    let unit = FileUnit { path: b.nodes[named_node].path(), pragma: Some("2.1.0".into()), custom_pragma: false, includes: vec![], defs, main: None };
    let project = gen::Project { files: vec![unit], named: vec![0], libs: vec![] };
    let (w, layout) = project.render_with_layout(&mut Rng::new(b.style_seed), &b.style);
    (w, layout, own)
}

fn findings_of_defs(o: &Outcome, world: &World, layout: &Layout, names: &[String]) -> Vec<NF> {
    let out = parse_stdout(&o.stdout);
    let mut v = Vec::new();
    for mut n in with_positions(&out, world) {
        let keep = match &n.first {
            Some((p, l)) => layout.def_at(p, *l).map(|d| names.contains(&d.1)).unwrap_or(false),
            None => false,
        };
        if keep {
            n.first = None;
            v.push(n);
        }
    }
    v.sort();
    v
}

fn one(runner: &Runner, seed: u64, i: usize) -> Res {
    let b = build(seed, i);
    let mut res = Res {
        runs: 0,
        violation: None,
        harness_err: None,
        crashed: 0,
        shapes: b.shapes.clone(),
        files_reachable: 0,
        files_total: b.nodes.len(),
        reads_checked: 0,
        twin_checked: false,
        bad_checked: b.bad.is_some(),
        fp: hash_str(&serde_json::to_string(&b.case).unwrap_or_default()),
        sim_ns: 0,
        faults_fired: 0,
        syntactic_damage_judged: 0,
    };
    let o = match runner.run(&b.case) {
        Ok(o) => o,
        Err(e) => {
            res.harness_err = Some(e);
            return res;
        }
    };
    res.runs += 1;
    res.sim_ns += o.sim_ns();
    if crashed(&o) && !o.budget_exceeded() {
        res.crashed += 1;
        return res;
    }
    let (counts, _) = consumption_counts(&o, &runner.root);
    res.files_reachable = counts.len();
    res.reads_checked = counts.values().sum();
    if let Some((sig, detail)) = judge(runner, &b, &o, true) {
        res.violation = Some((sig, detail, json!({"kind": "C19", "seed": seed, "index": i, "case": b.case})));
        return res;
    }
    // a second hash key, and an fs fault on an included file (reach / no-crash only)
    {
        let mut r2 = Rng::new(seed).sub_n("C19-extra", i as u64);
        let mut c = b.case.clone();
        c.plan.set_hashkey(r2.bytes16());
        let mut damaged: Option<String> = None;
        let mut syntactic = false;
        if b.nodes.len() > 1 && r2.chance(1, 2) {
            let k = 1 + r2.usize(b.nodes.len() - 1);
            match r2.usize(7) {
                5 => {
                    // the file ends inside a definition
                    let t = c.world.get_text(&b.nodes[k].path()).unwrap_or("").to_string();
                    if let Some(open) = t.find('{') {
                        let mut cut = open + 1 + r2.usize((t.len() - open).max(1));
                        while cut < t.len() && !t.is_char_boundary(cut) {
                            cut += 1;
                        }
                        c.world.put(&b.nodes[k].path(), &t[..cut.min(t.len())]);
                    }
                    syntactic = true;
                }
                6 => {
                    let mut t = c.world.get_text(&b.nodes[k].path()).unwrap_or("").to_string();
                    t.push_str(*r2.pick(&["\n/* never closed", "/*", "\n/* a *", "\n/**"]));
                    c.world.put(&b.nodes[k].path(), &t);
                    syntactic = true;
                }
                0 => c.plan.faults.push(Fault { call: "open".into(), errno: libc::EACCES, occurrence: 0, suffix: b.nodes[k].path() }),
                1 => c.plan.faults.push(Fault { call: "read".into(), errno: libc::EIO, occurrence: 0, suffix: b.nodes[k].path() }),
                2 => c.plan.faults.push(Fault { call: "open".into(), errno: libc::ENOENT, occurrence: 0, suffix: b.nodes[k].path() }),
                3 => {
                    let len = c.world.files[&b.nodes[k].path()].bytes().len();
                    corrupt_file(&mut c.world, &b.nodes[k].path(), &Corruption::BadUtf8(r2.usize(len.max(1))));
                }
                _ => {
                    let mut t = c.world.get_text(&b.nodes[k].path()).unwrap_or("").to_string();
                    t.push_str("\n@ } broken\n");
                    c.world.put(&b.nodes[k].path(), &t);
                    syntactic = true;
                }
            }
            damaged = Some(b.nodes[k].path());
        }
        if let Ok(o2) = runner.run(&c) {
            res.runs += 1;
            res.sim_ns += o2.sim_ns();
            if crashed(&o2) {
                res.crashed += 1;
            } else if damaged.is_none() {
                if let Some((sig, detail)) = judge(runner, &b, &o2, true) {
                    res.violation = Some((sig, detail, json!({"kind": "C19", "seed": seed, "index": i, "case": c})));
                    return res;
                }
            } else {
                // an included file that cannot be read or parsed: whatever else happens, no
                // file is opened more than once, however many include paths lead to it
                res.faults_fired += 1;
                let mut attempts: BTreeMap<PathBuf, usize> = BTreeMap::new();
                for e in &o2.events {
                    if e.call == "open" {
                        let p = e.path.replace(ROOT_TOKEN, &runner.root.to_string_lossy());
                        let cpath = std::fs::canonicalize(&p).unwrap_or_else(|_| PathBuf::from(&p));
                        *attempts.entry(cpath).or_default() += 1;
                    }
                }
                // a readable included-only file that does not parse: whatever the tool makes of
                // it is located in that file and stays out of sight; nothing without a location
                // may appear that the undamaged run does not show
                let named_here = damaged.as_ref().map(|d| b.argv_inputs.iter().any(|a| a == d || a == ".")).unwrap_or(true);
                if syntactic && !named_here {
                    let base_free: Vec<String> = parse_stdout(&o.stdout).diags.iter().filter(|d| d.locs.is_empty()).map(|d| d.message.clone()).collect();
                    let mut left = base_free.clone();
                    for d in parse_stdout(&o2.stdout).diags.iter().filter(|d| d.locs.is_empty()) {
                        if let Some(pos) = left.iter().position(|m| *m == d.message) {
                            left.remove(pos);
                        } else {
                            res.violation = Some((
                                "finding-of-included-only-file:without-location".into(),
                                format!("`{}` is only included and does not parse; displayed without any location: {}: {}", damaged.clone().unwrap_or_default(), d.severity, d.message),
                                json!({"kind": "C19", "seed": seed, "index": i, "case": c, "damaged": damaged}),
                            ));
                            return res;
                        }
                    }
                    res.syntactic_damage_judged += 1;
                    // and the named files are analysed and reported on as before
                    if let Some((sig, detail)) = judge(runner, &b, &o2, false) {
                        res.violation = Some((format!("{sig}:damaged-include"), format!("`{}` is only included and does not parse; {detail}", damaged.clone().unwrap_or_default()), json!({"kind": "C19", "seed": seed, "index": i, "case": c, "damaged": damaged})));
                        return res;
                    }
                }
                if let Some((p, n)) = attempts.iter().find(|(_, n)| **n > 1) {
                    let rel = p.strip_prefix(&runner.root).unwrap_or(p).display().to_string();
                    res.violation = Some((
                        "opened-more-than-once:damaged-include".into(),
                        format!("`{rel}` was opened {n} times in a run where `{}` cannot be read or parsed; shapes {:?}", damaged.clone().unwrap_or_default(), b.shapes),
                        json!({"kind": "C19", "seed": seed, "index": i, "case": c, "damaged": damaged}),
                    ));
                    return res;
                }
            }
        }
    }
    // include-vs-inline twin, when exactly one regular file is named and nothing is unresolvable
    if b.argv_inputs.len() == 1 && b.argv_inputs[0] != "." && b.bad.is_none() {
        // reachable node set by the reference resolver
        let root = runner.root.clone();
        if b.world.materialise(&root).is_err() {
            return res;
        }
        let mut include_map: BTreeMap<PathBuf, Vec<String>> = BTreeMap::new();
        let mut node_of: BTreeMap<PathBuf, usize> = BTreeMap::new();
        for (k, nd) in b.nodes.iter().enumerate() {
            if let Ok(c) = std::fs::canonicalize(root.join(nd.path())) {
                include_map.insert(c.clone(), nd.includes.iter().map(|(_, s)| s.clone()).collect());
                node_of.insert(c, k);
            }
        }
        let rr = reference_resolve(&root, &b, &include_map);
        let reach: Vec<usize> = rr.reachable.iter().filter_map(|p| node_of.get(p).copied()).collect();
        let (w, layout, own) = inline_twin(&b, &reach, 0);
        let mut c = b.case.clone();
        c.world = w.clone();
        c.argv = Opts::base().argv();
        c.argv.push(b.nodes[0].path());
        if let Ok(ot) = runner.run(&c) {
            res.runs += 1;
            if !crashed(&ot) {
                let fa = findings_of_defs(&o, &b.world, &b.layout, &own);
                let fb = findings_of_defs(&ot, &w, &layout, &own);
                res.twin_checked = true;
                if fa != fb {
                    let d = first_difference(&fa, &fb);
                    let txt = match d {
                        Some((Some(x), _)) => format!("only with includes: {}", describe(&x)),
                        Some((_, Some(y))) => format!("only with the definitions inlined: {}", describe(&y)),
                        _ => String::new(),
                    };
                    res.violation = Some((
                        "included-definitions-do-not-inform-analysis".into(),
                        txt,
                        json!({"kind": "C19", "seed": seed, "index": i, "case": b.case, "inline_twin": c}),
                    ));
                }
            }
        }
    }
    res
}

pub fn run(env: &Env) -> i32 {
    let t0 = Instant::now();
    let n = if env.quick() { 5000 } else { 200_000 };
    let n = std::env::var("VERIF_RUNS").ok().and_then(|s| s.parse().ok()).unwrap_or(n);
    let seed = env.seed;
    let results: Vec<Res> = env.par_map(n, |runner, i| one(runner, seed, i));
    if let Some(r) = results.iter().find(|r| r.harness_err.is_some()) {
        harness_error(&format!("C19: {}", r.harness_err.clone().unwrap()));
    }
    let mut seen = BTreeSet::new();
    let mut violations = Vec::new();
    for r in &results {
        if let Some((sig, detail, replay)) = &r.violation {
            if seen.insert(sig.clone()) {
                violations.push(Violation { property: "C19".into(), signature: sig.clone(), detail: detail.clone(), replay: replay.clone() });
            }
        }
    }
    let wall = t0.elapsed().as_secs_f64();
    let runs: usize = results.iter().map(|r| r.runs).sum();
    let mut shapes: BTreeMap<&str, usize> = BTreeMap::new();
    for r in &results {
        let s: BTreeSet<&str> = r.shapes.iter().copied().collect();
        for x in s {
            *shapes.entry(x).or_default() += 1;
        }
    }
    let nontrivial: BTreeSet<u64> = results.iter().filter(|r| r.files_reachable >= 2).map(|r| r.fp).collect();
    let b0 = build(seed, 0);
    let mut cov: BTreeMap<String, Value> = BTreeMap::new();
    cov.insert("evaluations".into(), json!(runs));
    cov.insert("projects".into(), json!(n));
    cov.insert("distinct_nontrivial".into(), json!(nontrivial.len()));
    cov.insert("rule".into(), json!("one evaluation = one child run of the real binary on a generated include graph; non-trivial = at least two files were consumed; distinct by hash of (files, symlinks, argv, plan)"));
    cov.insert("samples".into(), json!([{"argv": b0.case.argv, "symlinks": b0.world.symlinks, "shapes": b0.shapes, "files": b0.world.files}]));
    cov.insert("shapes_reached".into(), json!(shapes));
    {
        let all = ["cycle", "self-include", "diamond", "double-spelling", "symlinked-file", "symlinked-dir", "library-dir", "second-library-dir", "library-file", "via-library-dir", "via-library-file",
                   "library-file-shadowed-by-local-file", "same-name-in-two-directories", "local-candidate-fails-with-other-errno", "unresolvable-include", "unsupported-pragma-in-the-graph", "directory-input",
                   "included-file-with-another-extension", "unresolvable-include:directory-before-library-file-name", "unresolvable-include:dot-spelling-of-library-name", "unresolvable-include:same-spelling-in-two-files", "unresolvable-include:bare-name-of-a-file-elsewhere", "directory-named-like-a-file-stem", "names-differing-in-case-only", "identical-files-with-relative-includes", "byte-order-mark-in-a-named-file", "unresolvable-include:dot-dot-spelling-beside-a-library"];
        let mut probes: Vec<(&str, usize)> = all.iter().map(|k| (*k, shapes.get(k).copied().unwrap_or(0))).collect();
        probes.push(("damaged or unreadable include", results.iter().map(|r| r.faults_fired).sum::<usize>()));
        probes.push(("included-only file that does not parse, judged", results.iter().map(|r| r.syntactic_damage_judged).sum::<usize>()));
        probes.push(("include-vs-inline twin judged", results.iter().filter(|r| r.twin_checked).count()));
        crate::report::add_probes(&mut cov, &probes);
        cov.insert("fault_kinds_fired".into(), json!({"hash-key": runs, "dir-order": shapes.get("directory-input").copied().unwrap_or(0),
            "realpath-errno-on-local-candidate": shapes.get("local-candidate-fails-with-other-errno").copied().unwrap_or(0),
            "damaged-or-unreadable-include": results.iter().map(|r| r.faults_fired).sum::<usize>()}));
    }
    cov.insert("file_consumptions_checked".into(), json!(results.iter().map(|r| r.reads_checked).sum::<usize>()));
    cov.insert("include_vs_inline_twins_checked".into(), json!(results.iter().filter(|r| r.twin_checked).count()));
    cov.insert("unresolvable_includes_planted".into(), json!(results.iter().filter(|r| r.bad_checked).count()));
    cov.insert("fs_faults_on_included_files_fired".into(), json!(results.iter().map(|r| r.faults_fired).sum::<usize>()));
    cov.insert("runs_skipped_because_crashed".into(), json!(results.iter().map(|r| r.crashed).sum::<usize>()));
    cov.insert("simulated_seconds".into(), json!(results.iter().map(|r| r.sim_ns as i128).sum::<i128>() as f64 / 1e9));
    cov.insert("runs_per_hour".into(), json!((runs as f64 / wall * 3600.0) as u64));
    cov.insert("components".into(), json!({"real": ["circomspect binary", "std", "tmpfs with real symlinks and directories"], "simulated": ["getrandom", "clock_gettime", "readdir order"], "recorded": ["open/read/realpath/opendir events"], "stubbed": []}));
    Evidence {
        property: "C19".into(),
        tier: env.tier.clone(),
        seed,
        level: "exploration".into(),
        coverage: cov,
        assumptions: vec![
            "the reference resolver (relative to the including file's real directory, then -L libraries in order) is evaluated with the harness's own realpath on the pristine sandbox".into(),
            "'read once' means the content is consumed to EOF once; hard links are excluded".into(),
            "an unresolvable include is judged only when the including file is named".into(),
        ],
        wall_s: wall,
        violations: violations.len(),
    }
    .write();
    conclude("C19", &violations)
}

pub fn replay(env: &Env, v: &Value) -> i32 {
    let seed = v["seed"].as_u64().unwrap_or(1);
    let index = v["index"].as_u64().unwrap_or(0) as usize;
    let runner = Runner::new(&env.bin, &env.shim, &env.scratch, 0);
    let b = build(seed, index);
    let case: Case = serde_json::from_value(v["case"].clone()).unwrap_or_else(|e| harness_error(&format!("replay: {e}")));
    let o = runner.run(&case).unwrap_or_else(|e| harness_error(&e));
    println!("argv: {:?}\n{}", case.argv, o.stdout);
    if v.get("damaged").map(|d| d.is_null()).unwrap_or(true) && v.get("inline_twin").is_none() {
        if let Some((sig, detail)) = judge(&runner, &b, &o, true) {
            println!("{sig}: {detail}");
            println!("VIOLATION property=C19 replay=(replayed)");
            return 1;
        }
    }
    let r = one(&runner, seed, index);
    if let Some((sig, detail, _)) = r.violation {
        println!("{sig}: {detail}");
        println!("VIOLATION property=C19 replay=(replayed)");
        return 1;
    }
    println!("replay: no violation");
    0
}

/// Development aid: indices of cases with the given named inputs.
pub fn find_cases(seed: u64, n: usize, inputs: &[&str]) -> Vec<usize> {
    (0..n).filter(|&i| build(seed, i).argv_inputs.iter().map(|s| s.as_str()).collect::<Vec<_>>() == inputs).collect()
}

pub fn debug_case(env: &Env, i: usize, times: usize) {
    let b = build(env.seed, i);
    println!("argv {:?}\nshapes {:?}\nsymlinks {:?}", b.case.argv, b.shapes, b.world.symlinks);
    for (p, f) in &b.world.files {
        println!("--- {p}\n{}", f.text().unwrap_or(""));
    }
    for t in 0..times {
        let runner = Runner::new(&env.bin, &env.shim, &env.scratch, t % 16);
        let o = runner.run(&b.case).unwrap();
        let v = judge(&runner, &b, &o, true);
        println!("run {t}: exit {:?} verdict {:?}", o.exit, v.map(|x| x.0));
        if t == 0 {
            println!("{}", o.stdout.lines().filter(|l| l.starts_with("circomspect") || l.starts_with("error")).collect::<Vec<_>>().join("\n"));
        }
    }
}
