//! The simulated world of one run: sandbox files, argv and the fault plan.
//! A `Case` is exactly what a replay file holds; running it is a pure
//! function of the case and the code under /repo.

use serde::{Deserialize, Serialize};
use std::collections::BTreeMap;
use std::fs;
use std::io;
use std::path::Path;

pub const ROOT_TOKEN: &str = "@ROOT@";

#[derive(Clone, Debug, Serialize, Deserialize, PartialEq, Eq)]
#[serde(untagged)]
pub enum Body {
    Text { text: String },
    Hex { hex: String },
}

impl Body {
    pub fn from_bytes(b: &[u8]) -> Body {
        match std::str::from_utf8(b) {
            Ok(s) => Body::Text { text: s.to_string() },
            Err(_) => Body::Hex { hex: b.iter().map(|x| format!("{x:02x}")).collect() },
        }
    }
    pub fn bytes(&self) -> Vec<u8> {
        match self {
            Body::Text { text } => text.as_bytes().to_vec(),
            Body::Hex { hex } => {
                let h = hex.as_bytes();
                (0..h.len() / 2)
                    .map(|i| {
                        let s = std::str::from_utf8(&h[2 * i..2 * i + 2]).unwrap_or("00");
                        u8::from_str_radix(s, 16).unwrap_or(0)
                    })
                    .collect()
            }
        }
    }
    pub fn text(&self) -> Option<&str> {
        match self {
            Body::Text { text } => Some(text),
            _ => None,
        }
    }
}

#[derive(Clone, Debug, Default, Serialize, Deserialize, PartialEq, Eq)]
pub struct World {
    /// sandbox-relative path -> contents (ROOT_TOKEN is replaced by the sandbox root)
    pub files: BTreeMap<String, Body>,
    /// sandbox-relative link path -> link target (relative, or starting with ROOT_TOKEN)
    #[serde(default)]
    pub symlinks: BTreeMap<String, String>,
    /// extra (possibly empty) directories
    #[serde(default)]
    pub dirs: Vec<String>,
}

impl World {
    pub fn put(&mut self, path: &str, text: &str) {
        self.files.insert(path.to_string(), Body::Text { text: text.to_string() });
    }
    pub fn put_bytes(&mut self, path: &str, b: &[u8]) {
        self.files.insert(path.to_string(), Body::from_bytes(b));
    }
    pub fn get_text(&self, path: &str) -> Option<&str> {
        self.files.get(path).and_then(|b| b.text())
    }
    pub fn total_bytes(&self) -> usize {
        self.files.values().map(|b| b.bytes().len()).sum()
    }

    pub fn materialise(&self, root: &Path) -> io::Result<()> {
        if root.exists() {
            fs::remove_dir_all(root)?;
        }
        fs::create_dir_all(root)?;
        let root_str = root.to_string_lossy().to_string();
        for d in &self.dirs {
            fs::create_dir_all(root.join(d))?;
        }
        for (rel, body) in &self.files {
            // `@RAW:hh@` in a name stands for the byte hh (names that are not UTF-8)
            let p = if rel.contains("@RAW:") {
                use std::os::unix::ffi::OsStringExt;
                let mut bytes: Vec<u8> = Vec::new();
                let mut rest = rel.as_str();
                while let Some(k) = rest.find("@RAW:") {
                    bytes.extend_from_slice(rest[..k].as_bytes());
                    let hex = rest.get(k + 5..k + 7).unwrap_or("3f");
                    bytes.push(u8::from_str_radix(hex, 16).unwrap_or(b'?'));
                    rest = rest.get(k + 8..).unwrap_or("");
                }
                bytes.extend_from_slice(rest.as_bytes());
                root.join(std::ffi::OsString::from_vec(bytes))
            } else {
                root.join(rel)
            };
            if let Some(parent) = p.parent() {
                fs::create_dir_all(parent)?;
            }
            let bytes = match body {
                Body::Text { text } if text.contains(ROOT_TOKEN) => {
                    text.replace(ROOT_TOKEN, &root_str).into_bytes()
                }
                b => b.bytes(),
            };
            fs::write(&p, bytes)?;
        }
        for (rel, target) in &self.symlinks {
            let p = root.join(rel);
            if let Some(parent) = p.parent() {
                fs::create_dir_all(parent)?;
            }
            let target = target.replace(ROOT_TOKEN, &root_str);
            std::os::unix::fs::symlink(target, &p)?;
        }
        Ok(())
    }
}

#[derive(Clone, Debug, Serialize, Deserialize, PartialEq, Eq)]
pub struct Fault {
    /// open | read | realpath | create | write | opendir
    pub call: String,
    /// errno to inject; -1 on `read` means one EINTR
    pub errno: i32,
    /// k-th matching call (1-based); 0 = every matching call
    pub occurrence: i64,
    /// path suffix the call's path must end with
    pub suffix: String,
}

#[derive(Clone, Debug, Serialize, Deserialize, PartialEq, Eq)]
pub struct Plan {
    pub hashkey: String, // 32 hex digits
    pub clockseed: u64,
    pub clockmax_ns: i64,
    /// (clock read index, extra nanoseconds)
    #[serde(default)]
    pub stalls: Vec<(i64, i64)>,
    /// per-read stall probability in 1/1000
    #[serde(default)]
    pub stall_permille: u32,
    #[serde(default)]
    pub faults: Vec<Fault>,
    #[serde(default)]
    pub shortread: i64,
    #[serde(default)]
    pub shortwrite: i64,
    #[serde(default)]
    pub dirseed: u64,
    pub maxevents: i64,
    /// leave address-space randomisation on (off by default)
    #[serde(default)]
    pub aslr: bool,
    /// every write to stderr fails with this errno (0 = off)
    #[serde(default)]
    pub stderr_errno: i32,
    #[serde(default)]
    pub stdout_errno: i32,
    /// environment variables of the child (everything else is cleared)
    #[serde(default)]
    pub env: Vec<(String, String)>,
    /// (wall-clock read index, ns): the wall clock steps backwards at that read
    #[serde(default)]
    pub wall_back: Vec<(i64, i64)>,
}

impl Plan {
    pub fn quiet(hashkey: [u8; 16], clockseed: u64) -> Plan {
        Plan {
            hashkey: hashkey.iter().map(|b| format!("{b:02x}")).collect(),
            clockseed,
            clockmax_ns: 50_000,
            stalls: vec![],
            stall_permille: 0,
            faults: vec![],
            shortread: 0,
            shortwrite: 0,
            dirseed: 0,
            maxevents: 100000,
            aslr: false,
            stderr_errno: 0,
            stdout_errno: 0,
            env: vec![],
            wall_back: vec![],
        }
    }

    pub fn set_hashkey(&mut self, k: [u8; 16]) {
        self.hashkey = k.iter().map(|b| format!("{b:02x}")).collect();
    }

    pub fn to_text(&self, root: &str, log: &str) -> String {
        let mut s = String::new();
        s.push_str(&format!("root {root}\n"));
        s.push_str(&format!("log {log}\n"));
        s.push_str(&format!("hashkey {}\n", self.hashkey));
        s.push_str(&format!("clockseed {}\n", self.clockseed));
        s.push_str(&format!("clockmax {}\n", self.clockmax_ns));
        for (i, ns) in &self.stalls {
            s.push_str(&format!("stall {i} {ns}\n"));
        }
        if self.stall_permille > 0 {
            s.push_str(&format!(
                "stallprob {}.{:03} 11000000000\n",
                self.stall_permille / 1000,
                self.stall_permille % 1000
            ));
        }
        s.push_str(&format!("maxevents {}\n", self.maxevents));
        if self.shortread > 0 {
            s.push_str(&format!("shortread {}\n", self.shortread));
        }
        if self.shortwrite > 0 {
            s.push_str(&format!("shortwrite {}\n", self.shortwrite));
        }
        if self.dirseed != 0 {
            s.push_str(&format!("dirseed {}\n", self.dirseed));
        }
        if self.stderr_errno > 0 {
            s.push_str(&format!("stderrfail {}\n", self.stderr_errno));
        }
        if self.stdout_errno > 0 {
            s.push_str(&format!("stdoutfail {}\n", self.stdout_errno));
        }
        for (i, ns) in &self.wall_back {
            s.push_str(&format!("rtback {i} {ns}\n"));
        }
        for f in &self.faults {
            s.push_str(&format!("fault {} {} {} {}\n", f.call, f.errno, f.occurrence, f.suffix));
        }
        s
    }
}

#[derive(Clone, Debug, Serialize, Deserialize, PartialEq, Eq)]
pub struct Case {
    pub world: World,
    /// arguments after the program name; ROOT_TOKEN is replaced by the sandbox root
    pub argv: Vec<String>,
    pub plan: Plan,
}
