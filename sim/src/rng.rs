//! The only source of randomness in the harness: splitmix64 streams derived
//! from VERIF_SEED. Sub-streams are derived by label so that removing one
//! choice (e.g. a fault) during minimisation does not shift the others.

#[derive(Clone, Debug)]
pub struct Rng {
    state: u64,
}

pub fn mix64(mut z: u64) -> u64 {
    z = z.wrapping_add(0x9E3779B97F4A7C15);
    z = (z ^ (z >> 30)).wrapping_mul(0xBF58476D1CE4E5B9);
    z = (z ^ (z >> 27)).wrapping_mul(0x94D049BB133111EB);
    z ^ (z >> 31)
}

pub fn hash_str(s: &str) -> u64 {
    // FNV-1a, then mixed.
    let mut h: u64 = 0xcbf29ce484222325;
    for b in s.bytes() {
        h ^= b as u64;
        h = h.wrapping_mul(0x100000001b3);
    }
    mix64(h)
}

impl Rng {
    pub fn new(seed: u64) -> Rng {
        Rng { state: mix64(seed ^ 0x5851F42D4C957F2D) }
    }

    /// Independent sub-stream identified by a label.
    pub fn sub(&self, label: &str) -> Rng {
        Rng { state: mix64(self.state ^ hash_str(label)) }
    }

    pub fn sub_n(&self, label: &str, n: u64) -> Rng {
        Rng { state: mix64(mix64(self.state ^ hash_str(label)) ^ n.wrapping_mul(0xD6E8FEB86659FD93)) }
    }

    pub fn next_u64(&mut self) -> u64 {
        self.state = self.state.wrapping_add(0x9E3779B97F4A7C15);
        let mut z = self.state;
        z = (z ^ (z >> 30)).wrapping_mul(0xBF58476D1CE4E5B9);
        z = (z ^ (z >> 27)).wrapping_mul(0x94D049BB133111EB);
        z ^ (z >> 31)
    }

    /// Uniform in 0..n (n > 0).
    pub fn below(&mut self, n: u64) -> u64 {
        if n <= 1 {
            return 0;
        }
        self.next_u64() % n
    }

    pub fn usize(&mut self, n: usize) -> usize {
        self.below(n as u64) as usize
    }

    /// Uniform in lo..=hi.
    pub fn range(&mut self, lo: i64, hi: i64) -> i64 {
        if hi <= lo {
            return lo;
        }
        lo + self.below((hi - lo + 1) as u64) as i64
    }

    pub fn chance(&mut self, num: u64, den: u64) -> bool {
        self.below(den) < num
    }

    pub fn f64(&mut self) -> f64 {
        (self.next_u64() >> 11) as f64 / 9007199254740992.0
    }

    pub fn pick<'a, T>(&mut self, xs: &'a [T]) -> &'a T {
        &xs[self.usize(xs.len())]
    }

    pub fn shuffle<T>(&mut self, xs: &mut [T]) {
        for i in (1..xs.len()).rev() {
            let j = self.usize(i + 1);
            xs.swap(i, j);
        }
    }

    pub fn bytes16(&mut self) -> [u8; 16] {
        let a = self.next_u64().to_le_bytes();
        let b = self.next_u64().to_le_bytes();
        let mut out = [0u8; 16];
        out[..8].copy_from_slice(&a);
        out[8..].copy_from_slice(&b);
        out
    }
}
