#![allow(dead_code)]
//! Deterministic simulation harness for circomspect (see /verif/DESIGN.md).
//!
//! usage: sim <C01|C02|...> <quick|thorough> [--replay <file>]
//!        sim selftest-determinism
//!        sim gen <seed> [n]        (print generated projects; development aid)

mod common;
mod driver;
mod findings;
mod interp;
mod libtier;
mod model;
mod gen;
mod minimise;
mod outparse;
mod procrun;
mod report;
mod rng;
mod selftest;
mod world;
mod props {
    pub mod c01;
    pub mod c02;
    pub mod c03;
    pub mod c14;
    pub mod c17;
    pub mod c19;
    pub mod c20;
}

use driver::{harness_error, Env};

fn main() {
    let args: Vec<String> = std::env::args().collect();
    if args.len() < 2 {
        eprintln!("usage: sim <property> <quick|thorough> [--replay file]");
        std::process::exit(2);
    }
    let cmd = args[1].as_str();
    // the tier named on the command line wins; VERIF_TIER only fills in when none is given
    let tier = match args.get(2).map(|s| s.as_str()) {
        Some(t) if t == "quick" || t == "thorough" => t.to_string(),
        _ => std::env::var("VERIF_TIER").ok().filter(|t| t == "quick" || t == "thorough").unwrap_or_else(|| "quick".to_string()),
    };
    let replay = args.iter().position(|a| a == "--replay").and_then(|i| args.get(i + 1)).cloned();

    if cmd == "gen" {
        let seed: u64 = args.get(2).and_then(|s| s.parse().ok()).unwrap_or(1);
        let n: usize = args.get(3).and_then(|s| s.parse().ok()).unwrap_or(1);
        for i in 0..n {
            let b = props::c01::build_case(seed, i, false);
            println!("=== case {i} mode={} argv={:?} configured={:?}", b.mode, b.case.argv, b.configured);
            for (p, body) in &b.case.world.files {
                println!("--- {p}\n{}", String::from_utf8_lossy(&body.bytes()));
            }
        }
        return;
    }

    if cmd == "gen14" {
        // development aid: the definitions the C14 check would generate
        let seed: u64 = args.get(2).and_then(|s| s.parse().ok()).unwrap_or(1);
        let n: usize = args.get(3).and_then(|s| s.parse().ok()).unwrap_or(1);
        for i in 0..n {
            println!("=== definition {i}\n{}", props::c14::gen_source(seed, i));
        }
        return;
    }

    if cmd == "dump" {
        // development aid: print the SSA form of one definition with the facts attached
        use program_structure::cfg::IntoCfg;
        let src = std::fs::read_to_string(&args[2]).expect("file");
        let curve: program_structure::constants::Curve = args.get(3).map(|c| c.parse().unwrap()).unwrap_or_default();
        let def = parser::parse_definition(&src).expect("one definition");
        let mut reports = Vec::new();
        let cfg = def.into_cfg(&curve, &mut reports).expect("cfg").into_ssa().expect("ssa");
        for bb in cfg.iter() {
            println!("block {} preds {:?} succs {:?}", bb.index(), bb.predecessors(), bb.successors());
            for s in bb.iter() {
                let extra = match s {
                    program_structure::ir::Statement::Substitution { rhe, .. } => format!(
                        "   [degree {:?} value {:?}]",
                        rhe.meta().degree_knowledge().degree().map(|r| (r.start(), r.end())),
                        rhe.meta().value_knowledge().get_reduces_to()
                    ),
                    _ => String::new(),
                };
                println!("    {s:?}{extra}");
            }
        }
        return;
    }
    if cmd == "genstats" {
        // development aid: which diagnostics do generated (unfaulted) projects draw?
        let env = Env::from_env("quick");
        let n: usize = args.get(2).and_then(|s| s.parse().ok()).unwrap_or(500);
        let seed = env.seed;
        let rows = env.par_map(n, |runner, i| {
            let base = rng::Rng::new(seed).sub_n("genstats", i as u64);
            let mut r = base.sub("p");
            let k = gen::Knobs::random(&mut r);
            let shape = gen::ProjectShape { max_files: 3, min_defs: 1, max_defs: 6, with_main: true, pragma_always: false, name_suffix: String::new() };
            let p = gen::gen_project(&mut r, &k, &shape);
            let w = p.render(&mut base.sub("s"), &gen::Style::plain());
            let case = common::make_case(&p, w, &common::Opts::base(), common::quiet_plan(&mut base.sub("k")));
            let o = runner.run(&case).unwrap();
            let out = outparse::parse_stdout(&o.stdout);
            let mut v: Vec<String> = out.diags.iter().map(|d| format!("{} {} {}", d.severity, d.code.clone().unwrap_or_default(), findings::message_key(&d.message))).collect();
            if common::crashed(&o) {
                v.push(format!("CRASH {:?}", common::crash_signature(&o)));
            }
            if !out.unparsed.is_empty() {
                v.push(format!("UNPARSED {:?}", out.unparsed.first()));
            }
            v
        });
        let mut tally: std::collections::BTreeMap<String, usize> = Default::default();
        for r in rows {
            for x in r {
                *tally.entry(x).or_default() += 1;
            }
        }
        let mut t: Vec<_> = tally.into_iter().collect();
        t.sort_by(|a, b| b.1.cmp(&a.1));
        for (k, v) in t {
            println!("{v:6} {k}");
        }
        env.cleanup();
        return;
    }

    if cmd == "c19-find" {
        let env = Env::from_env("quick");
        let inputs: Vec<&str> = args[2..].iter().map(|s| s.as_str()).collect();
        println!("{:?}", props::c19::find_cases(env.seed, 5000, &inputs));
        env.cleanup();
        return;
    }
    if cmd == "c19-debug" {
        let env = Env::from_env("quick");
        props::c19::debug_case(&env, args[2].parse().unwrap(), args.get(3).and_then(|s| s.parse().ok()).unwrap_or(1));
        env.cleanup();
        return;
    }
    if cmd == "selftest-diff" {
        let env = Env::from_env("quick");
        selftest::diff_case(&env, args[2].parse().unwrap());
        env.cleanup();
        return;
    }
    if cmd == "selftest-digest" {
        let env = Env::from_env("quick");
        let n: usize = args.get(2).and_then(|s| s.parse().ok()).unwrap_or(2000);
        let code = selftest::run(&env, n);
        env.cleanup();
        std::process::exit(code);
    }
    let env = Env::from_env(&tier);
    println!("VERIF_SEED={} tier={} workers={}", env.seed, env.tier, env.workers);
    let code = if let Some(path) = replay {
        let text = std::fs::read_to_string(&path).unwrap_or_else(|e| harness_error(&format!("cannot read {path}: {e}")));
        let v: report::Violation = serde_json::from_str(&text).unwrap_or_else(|e| harness_error(&format!("replay file: {e}")));
        match cmd {
            "C01" => props::c01::replay(&env, &v.replay),
            "C02" => props::c02::replay(&env, &v.replay),
            "C03" => props::c03::replay(&env, &v.replay),
            "C14" => props::c14::replay(&env, &v.replay),
            "C17" => props::c17::replay(&env, &v.replay),
            "C19" => props::c19::replay(&env, &v.replay),
            "C20" => props::c20::replay(&env, &v.replay),
            _ => harness_error(&format!("no replayer for {cmd}")),
        }
    } else {
        match cmd {
            "C01" => props::c01::run(&env),
            "C02" => props::c02::run(&env),
            "C03" => props::c03::run(&env),
            "C14" => props::c14::run(&env),
            "C17" => props::c17::run(&env),
            "C19" => props::c19::run(&env),
            "C20" => props::c20::run(&env),
            _ => harness_error(&format!("unknown command {cmd}")),
        }
    };
    env.cleanup();
    std::process::exit(code);
}
