#![allow(dead_code)]
//! Deterministic simulation harness for circomspect (see /verif/DESIGN.md).
//!
//! usage: sim <C01|C02|...> <quick|thorough> [--replay <file>]
//!        sim selftest-determinism
//!        sim gen <seed> [n]        (print generated projects; development aid)

mod common;
mod driver;
mod gen;
mod minimise;
mod outparse;
mod procrun;
mod report;
mod rng;
mod world;
mod props {
    pub mod c01;
}

use driver::{harness_error, Env};

fn main() {
    let args: Vec<String> = std::env::args().collect();
    if args.len() < 2 {
        eprintln!("usage: sim <property> <quick|thorough> [--replay file]");
        std::process::exit(2);
    }
    let cmd = args[1].as_str();
    let tier = args.get(2).map(|s| s.as_str()).unwrap_or("quick");
    let tier = std::env::var("VERIF_TIER").ok().filter(|t| t == "quick" || t == "thorough").unwrap_or(tier.to_string());
    let replay = args.iter().position(|a| a == "--replay").and_then(|i| args.get(i + 1)).cloned();

    if cmd == "gen" {
        let seed: u64 = args.get(2).and_then(|s| s.parse().ok()).unwrap_or(1);
        let n: usize = args.get(3).and_then(|s| s.parse().ok()).unwrap_or(1);
        for i in 0..n {
            let b = props::c01::build_case(seed, i, false);
            println!("=== case {i} mode={} argv={:?} configured={:?}", b.mode, b.case.argv, b.configured);
            for (p, body) in &b.case.world.files {
                println!("--- {p}\n{}", String::from_utf8_lossy(&body.bytes()));
            }
        }
        return;
    }

    let env = Env::from_env(&tier);
    println!("VERIF_SEED={} tier={} workers={}", env.seed, env.tier, env.workers);
    let code = if let Some(path) = replay {
        let text = std::fs::read_to_string(&path).unwrap_or_else(|e| harness_error(&format!("cannot read {path}: {e}")));
        let v: report::Violation = serde_json::from_str(&text).unwrap_or_else(|e| harness_error(&format!("replay file: {e}")));
        match cmd {
            "C01" => props::c01::replay(&env, &v.replay),
            _ => harness_error(&format!("no replayer for {cmd}")),
        }
    } else {
        match cmd {
            "C01" => props::c01::run(&env),
            _ => harness_error(&format!("unknown command {cmd}")),
        }
    };
    env.cleanup();
    std::process::exit(code);
}
