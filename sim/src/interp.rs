//! Reference interpreter for the IR of an SSA CFG: a small executable model of
//! Circom's expression semantics on big integers, written from the language
//! documentation and independent of `circom_algebra`. It is the oracle of C20
//! (and, at the fixpoint, of C06/C07): while it executes a definition it checks
//! every constant the analysis attached to a node it evaluates, and it records
//! node values so that degree claims can be tested by finite differences.

use crate::rng::Rng;
use num_bigint_dig::BigInt;
use num_traits::{One, Signed, ToPrimitive, Zero};
use program_structure::cfg::Cfg;
use program_structure::ir::degree_meta::Degree;
use program_structure::ir::value_meta::ValueReduction;
use program_structure::ir::{
    AccessType, AssignOp, Expression, ExpressionInfixOpcode as Op, ExpressionPrefixOpcode as Pre, Statement, VariableName, VariableType,
};
use std::collections::BTreeMap;

#[derive(Clone, Debug, PartialEq)]
pub enum Val {
    F(BigInt),
    Arr(Vec<Val>),
}

#[derive(Clone, Copy, PartialEq, Eq, Debug)]
pub enum Mode {
    /// signals keep the value assigned on the path (for constant claims)
    Values,
    /// every signal / component port is an indeterminate a + t*v (for degree claims)
    Degrees,
}

pub struct Field {
    pub p: BigInt,
    half: BigInt,
    bits: usize,
}

impl Field {
    pub fn new(p: &BigInt) -> Field {
        Field { p: p.clone(), half: p / BigInt::from(2), bits: p.bits() }
    }
    pub fn norm(&self, a: &BigInt) -> BigInt {
        let r = a % &self.p;
        if r.is_negative() { r + &self.p } else { r }
    }
    fn signed(&self, a: &BigInt) -> BigInt {
        // representative in (-p/2, p/2]
        let a = self.norm(a);
        if a > self.half { a - &self.p } else { a }
    }
    fn inv(&self, a: &BigInt) -> Option<BigInt> {
        let a = self.norm(a);
        if a.is_zero() {
            return None;
        }
        // Fermat: a^(p-2)
        Some(a.modpow(&(&self.p - BigInt::from(2)), &self.p))
    }
    fn boolean(b: bool) -> BigInt {
        if b { BigInt::one() } else { BigInt::zero() }
    }
    fn shl(&self, a: &BigInt, k: &BigInt) -> Option<BigInt> {
        let k = self.norm(k);
        if k <= self.half {
            let ku = k.to_usize()?;
            if ku >= self.bits {
                return Some(BigInt::zero());
            }
            let mask = (BigInt::one() << self.bits) - BigInt::one();
            Some(self.norm(&((self.norm(a) << ku) & mask)))
        } else {
            self.shr(a, &(&self.p - k))
        }
    }
    fn shr(&self, a: &BigInt, k: &BigInt) -> Option<BigInt> {
        let k = self.norm(k);
        if k <= self.half {
            let ku = k.to_usize()?;
            if ku >= self.bits + 2 {
                return Some(BigInt::zero());
            }
            Some(self.norm(a) >> ku)
        } else {
            self.shl(a, &(&self.p - k))
        }
    }
    /// None = undefined operation (division by zero, ambiguous complement): the sample is skipped.
    pub fn infix(&self, op: Op, a: &BigInt, b: &BigInt) -> Option<BigInt> {
        let (x, y) = (self.norm(a), self.norm(b));
        Some(match op {
            Op::Add => self.norm(&(x + y)),
            Op::Sub => self.norm(&(x - y)),
            Op::Mul => self.norm(&(x * y)),
            Op::Div => self.norm(&(x * self.inv(&y)?)),
            Op::Pow => x.modpow(&y, &self.p),
            Op::IntDiv => {
                if y.is_zero() {
                    return None;
                }
                x / y
            }
            Op::Mod => {
                if y.is_zero() {
                    return None;
                }
                x % y
            }
            Op::ShiftL => self.shl(&x, &y)?,
            Op::ShiftR => self.shr(&x, &y)?,
            Op::LesserEq => Self::boolean(self.signed(&x) <= self.signed(&y)),
            Op::GreaterEq => Self::boolean(self.signed(&x) >= self.signed(&y)),
            Op::Lesser => Self::boolean(self.signed(&x) < self.signed(&y)),
            Op::Greater => Self::boolean(self.signed(&x) > self.signed(&y)),
            Op::Eq => Self::boolean(x == y),
            Op::NotEq => Self::boolean(x != y),
            Op::BoolOr => Self::boolean(!x.is_zero() || !y.is_zero()),
            Op::BoolAnd => Self::boolean(!x.is_zero() && !y.is_zero()),
            Op::BitOr => self.norm(&(x | y)),
            Op::BitAnd => self.norm(&(x & y)),
            Op::BitXor => self.norm(&(x ^ y)),
        })
    }
    pub fn prefix(&self, op: Pre, a: &BigInt) -> Option<BigInt> {
        let x = self.norm(a);
        Some(match op {
            Pre::Sub => self.norm(&(-x)),
            Pre::BoolNot => Self::boolean(x.is_zero()),
            Pre::Complement => {
                // 256-bit complement, reduced; the complement of 0 is ambiguous between
                // the implementations the documentation points to, so it is not judged
                if x.is_zero() {
                    return None;
                }
                let mask = (BigInt::one() << 256usize) - BigInt::one();
                self.norm(&(mask ^ x))
            }
        })
    }
}

/// Identifies an expression node: its address inside the (immutable) CFG.
pub type NodeId = usize;

pub fn node_id(e: &Expression) -> NodeId {
    e as *const Expression as usize
}

#[derive(Clone, Debug)]
pub struct ClaimViolation {
    pub kind: String,
    pub detail: String,
}

pub struct Trace {
    /// block indices visited
    pub path: Vec<usize>,
    /// per node: the values at its dynamic evaluations (None = undefined / unknown)
    pub node_values: BTreeMap<NodeId, Vec<Option<BigInt>>>,
    pub violation: Option<ClaimViolation>,
    pub claims_checked: usize,
    pub completed: bool,
    pub undefined_hit: bool,
}

pub struct Interp<'a> {
    pub cfg: &'a Cfg,
    pub f: &'a Field,
    pub mode: Mode,
    /// choices that must be identical across the runs of one finite-difference family
    pub choice_seed: u64,
    /// parameter of the line a + t*v in signal space
    pub t: u64,
    pub line_seed: u64,
    types: BTreeMap<(String, String), VariableType>,
    locals: BTreeMap<String, Val>,
    local_stamp: BTreeMap<String, usize>,
    pub signals: BTreeMap<String, BigInt>,
    /// final values of the signals from an earlier execution with the same choices: a
    /// signal has one value, so a read that comes before the assignment sees it too
    pub pre_signals: BTreeMap<String, BigInt>,
    /// whether constant claims are judged in this execution
    pub judge: bool,
    stamp: usize,
    choices: Rng,
    call_counter: usize,
    pub trace: Trace,
    fuel: usize,
}

fn vname(n: &VariableName) -> String {
    format!("{n:?}")
}

fn boundary_value(r: &mut Rng, f: &Field) -> BigInt {
    match r.usize(12) {
        0 => BigInt::zero(),
        1 => BigInt::one(),
        2 => &f.p - BigInt::one(),
        3 => f.p.clone() / BigInt::from(2),
        4 => f.p.clone() / BigInt::from(2) + BigInt::one(),
        5 => (BigInt::one() << r.usize(f.bits.max(1))) - BigInt::one(),
        6 => BigInt::one() << r.usize(f.bits.max(1).min(250)),
        7 => BigInt::from(r.below(16)),
        _ => {
            // uniform-ish
            let mut x = BigInt::zero();
            for _ in 0..(f.bits / 64 + 1) {
                x = (x << 64usize) + BigInt::from(r.next_u64());
            }
            f.norm(&x)
        }
    }
}

impl<'a> Interp<'a> {
    pub fn new(cfg: &'a Cfg, f: &'a Field, mode: Mode, choice_seed: u64, line_seed: u64, t: u64) -> Interp<'a> {
        Interp {
            cfg,
            f,
            mode,
            choice_seed,
            t,
            line_seed,
            types: cfg.declarations().iter().map(|(n, d)| ((n.name().clone(), n.suffix().clone().unwrap_or_default()), d.variable_type().clone())).collect(),
            locals: BTreeMap::new(),
            local_stamp: BTreeMap::new(),
            signals: BTreeMap::new(),
            pre_signals: BTreeMap::new(),
            judge: true,
            stamp: 0,
            choices: Rng::new(choice_seed),
            call_counter: 0,
            trace: Trace { path: vec![], node_values: BTreeMap::new(), violation: None, claims_checked: 0, completed: false, undefined_hit: false },
            fuel: 3000,
        }
    }

    /// The value of an indeterminate (signal, component port, parameter) named `key`.
    fn indeterminate(&self, key: &str, varies: bool) -> BigInt {
        let mut ra = Rng::new(self.line_seed).sub(&format!("a:{key}"));
        let a = boundary_value(&mut ra, self.f);
        if varies && self.mode == Mode::Degrees {
            let mut rv = Rng::new(self.line_seed).sub(&format!("v:{key}"));
            let v = boundary_value(&mut rv, self.f);
            self.f.norm(&(a + v * BigInt::from(self.t)))
        } else {
            a
        }
    }

    fn var_type(&self, n: &VariableName) -> Option<VariableType> {
        // after SSA the declaration map is keyed by versioned names; match on (name, suffix)
        self.types.get(&(n.name().clone(), n.suffix().clone().unwrap_or_default())).cloned()
    }

    fn record(&mut self, e: &Expression, v: &Option<BigInt>) {
        self.trace.node_values.entry(node_id(e)).or_default().push(v.clone());
        if self.mode != Mode::Values || !self.judge || self.trace.violation.is_some() {
            return;
        }
        // check the constant the analysis attached to this node
        if let (Some(claim), Some(actual)) = (e.meta().value_knowledge().get_reduces_to(), v) {
            self.trace.claims_checked += 1;
            let ok = match claim {
                ValueReduction::FieldElement { value } => self.f.norm(value) == self.f.norm(actual),
                ValueReduction::Boolean { value } => self.f.norm(actual) == Field::boolean(*value),
            };
            if !ok {
                let kind = match e {
                    Expression::InfixOp { infix_op, .. } => format!("infix {infix_op}"),
                    Expression::PrefixOp { prefix_op, .. } => format!("prefix {prefix_op}"),
                    Expression::SwitchOp { .. } => "switch".to_string(),
                    Expression::Variable { .. } => "variable".to_string(),
                    Expression::Phi { .. } => "phi".to_string(),
                    Expression::Number(..) => "number".to_string(),
                    _ => "other".to_string(),
                };
                self.trace.violation = Some(ClaimViolation {
                    kind: format!("constant-claim-wrong:{kind}"),
                    detail: format!("node `{e:?}` is claimed to be the constant {claim} but evaluates to {actual} (path {:?})", self.trace.path),
                });
            }
        }
    }

    fn index_of(&mut self, e: &Expression) -> Option<usize> {
        let v = self.eval(e)?;
        match v {
            Val::F(x) => x.to_usize(),
            _ => None,
        }
    }

    fn access_key(&mut self, var: &VariableName, access: &[AccessType]) -> Option<String> {
        let mut key = var.name().clone();
        if let Some(s) = var.suffix() {
            key.push('~');
            key.push_str(s);
        }
        for a in access {
            match a {
                AccessType::ArrayAccess(i) => {
                    let idx = self.index_of(i)?;
                    key.push_str(&format!("[{idx}]"));
                }
                AccessType::ComponentAccess(p) => {
                    key.push('.');
                    key.push_str(p);
                }
            }
        }
        Some(key)
    }

    /// `assignable`: an output or intermediate signal of this template. In value mode
    /// such a signal has the value assigned to it on this path; if it is never assigned
    /// the read is undefined (None) and nothing computed from it is judged.
    fn read_signal(&mut self, key: &str, assignable: bool) -> Option<BigInt> {
        if self.mode == Mode::Values {
            if let Some(v) = self.signals.get(key).or_else(|| self.pre_signals.get(key)) {
                return Some(v.clone());
            }
            if assignable {
                return None;
            }
        }
        Some(self.indeterminate(key, true))
    }

    fn assignable(&self, n: &VariableName) -> bool {
        use program_structure::ir::SignalType;
        matches!(self.var_type(n), Some(VariableType::Signal(SignalType::Output | SignalType::Intermediate, _)))
    }

    /// None = unknown / undefined: nothing can be said about the node in this sample.
    pub fn eval(&mut self, e: &Expression) -> Option<Val> {
        use Expression::*;
        let out: Option<Val> = match e {
            Number(_, v) => Some(Val::F(self.f.norm(v))),
            Variable { name, .. } => match self.var_type(name) {
                Some(VariableType::Local) => self.locals.get(&vname(name)).cloned(),
                Some(_) => {
                    let key = self.access_key(name, &[])?;
                    let asg = self.assignable(name);
                    self.read_signal(&key, asg).map(Val::F)
                }
                None => None,
            },
            Access { var, access, .. } => match self.var_type(var) {
                Some(VariableType::Local) => {
                    let mut cur = self.locals.get(&vname(var)).cloned();
                    for a in access {
                        match a {
                            AccessType::ArrayAccess(i) => {
                                let idx = self.index_of(i);
                                cur = match (cur, idx) {
                                    (Some(Val::Arr(v)), Some(k)) => v.get(k).cloned(),
                                    _ => None,
                                };
                            }
                            AccessType::ComponentAccess(_) => cur = None,
                        }
                    }
                    cur
                }
                Some(_) => {
                    let key = self.access_key(var, access)?;
                    let asg = self.assignable(var);
                    self.read_signal(&key, asg).map(Val::F)
                }
                None => None,
            },
            Update { var, access, rhe, .. } => {
                let new = self.eval(rhe);
                match self.var_type(var) {
                    Some(VariableType::Local) => {
                        // element-wise update of a (possibly not yet existing) array
                        let base = self.locals.get(&vname(var)).cloned().unwrap_or(Val::Arr(vec![]));
                        let mut idxs = Vec::new();
                        for a in access {
                            if let AccessType::ArrayAccess(i) = a {
                                idxs.push(self.index_of(i)?);
                            }
                        }
                        fn set(v: Val, idxs: &[usize], new: Option<Val>) -> Option<Val> {
                            if idxs.is_empty() {
                                return new;
                            }
                            let mut arr = match v {
                                Val::Arr(a) => a,
                                _ => vec![],
                            };
                            let k = idxs[0];
                            if k > 64 {
                                return None;
                            }
                            while arr.len() <= k {
                                arr.push(Val::F(BigInt::zero()));
                            }
                            let inner = arr[k].clone();
                            arr[k] = set(inner, &idxs[1..], new)?;
                            Some(Val::Arr(arr))
                        }
                        set(base, &idxs, new)
                    }
                    _ => new, // signal / component element: handled by the statement
                }
            }
            InlineArray { values, .. } => {
                let mut v = Vec::new();
                for x in values {
                    v.push(self.eval(x)?);
                }
                Some(Val::Arr(v))
            }
            Call { args, .. } => {
                for a in args {
                    let _ = self.eval(a);
                }
                self.call_counter += 1;
                let mut r = Rng::new(self.choice_seed).sub_n("call", self.call_counter as u64);
                Some(Val::F(boundary_value(&mut r, self.f)))
            }
            PrefixOp { prefix_op, rhe, .. } => match self.eval(rhe)? {
                Val::F(x) => match self.f.prefix(*prefix_op, &x) {
                    Some(v) => Some(Val::F(v)),
                    None => {
                        self.trace.undefined_hit = true;
                        None
                    }
                },
                _ => None,
            },
            InfixOp { lhe, infix_op, rhe, .. } => {
                let l = self.eval(lhe);
                let r = self.eval(rhe);
                match (l?, r?) {
                    (Val::F(x), Val::F(y)) => match self.f.infix(*infix_op, &x, &y) {
                        Some(v) => Some(Val::F(v)),
                        None => {
                            self.trace.undefined_hit = true;
                            None
                        }
                    },
                    _ => None,
                }
            }
            SwitchOp { cond, if_true, if_false, .. } => {
                let c = self.eval(cond);
                // both arms are evaluated (their nodes carry claims too); the result follows the condition
                let a = self.eval(if_true);
                let b = self.eval(if_false);
                match c? {
                    Val::F(x) => {
                        if !x.is_zero() { a } else { b }
                    }
                    _ => None,
                }
            }
            Phi { args, .. } => {
                // the argument assigned most recently on this path
                let mut best: Option<(usize, &VariableName)> = None;
                for a in args {
                    if let Some(st) = self.local_stamp.get(&vname(a)) {
                        if best.map(|b| *st > b.0).unwrap_or(true) {
                            best = Some((*st, a));
                        }
                    }
                }
                best.and_then(|(_, a)| self.locals.get(&vname(a)).cloned())
            }
        };
        let scalar = match &out {
            Some(Val::F(x)) => Some(x.clone()),
            _ => None,
        };
        self.record(e, &scalar);
        out
    }

    fn assign_local(&mut self, var: &VariableName, v: Option<Val>) {
        self.stamp += 1;
        let k = vname(var);
        self.local_stamp.insert(k.clone(), self.stamp);
        match v {
            Some(v) => {
                self.locals.insert(k, v);
            }
            None => {
                self.locals.remove(&k);
            }
        }
    }

    /// Execute from the entry block. Returns when the definition returns, runs out of
    /// blocks or fuel, or a claim violation was found.
    pub fn run(&mut self) {
        // parameters: fixed field elements (not varying with t), version 0
        let params: Vec<VariableName> = self.cfg.parameters().iter().cloned().collect();
        let is_function = matches!(self.cfg.definition_type(), program_structure::cfg::DefinitionType::Function);
        for p in params {
            // template parameters are constants; function parameters may be signals, so
            // in degree mode they move along the line like any other indeterminate
            let varies = is_function && self.mode == Mode::Degrees;
            let v = self.indeterminate(&format!("param:{}", p.name()), varies);
            // small parameters are more interesting for loops and shifts
            let mut r = Rng::new(self.line_seed).sub(&format!("psmall:{}", p.name()));
            let v = if !varies && r.chance(2, 3) { BigInt::from(r.below(6)) } else { v };
            self.assign_local(&p.with_version(0), Some(Val::F(v.clone())));
            self.assign_local(&p, Some(Val::F(v)));
        }
        let mut b = 0usize;
        loop {
            self.trace.path.push(b);
            let Some(bb) = self.cfg.get_basic_block(b) else { break };
            let mut branch: Option<(usize, Option<usize>, Option<bool>)> = None;
            let stmts: Vec<&Statement> = bb.iter().collect();
            for s in stmts {
                if self.fuel == 0 || self.trace.violation.is_some() {
                    return;
                }
                self.fuel -= 1;
                match s {
                    Statement::Declaration { dimensions, .. } => {
                        for d in dimensions {
                            let _ = self.eval(d);
                        }
                    }
                    Statement::Substitution { var, op, rhe, meta } => {
                        let v = self.eval(rhe);
                        match self.var_type(var) {
                            Some(VariableType::Local) => {
                                // the statement itself may carry a claimed constant
                                if self.mode == Mode::Values && self.judge {
                                    if let (Some(claim), Some(Val::F(actual))) = (meta.value_knowledge().get_reduces_to(), &v) {
                                        self.trace.claims_checked += 1;
                                        let ok = match claim {
                                            ValueReduction::FieldElement { value } => self.f.norm(value) == self.f.norm(actual),
                                            ValueReduction::Boolean { value } => self.f.norm(actual) == Field::boolean(*value),
                                        };
                                        if !ok && self.trace.violation.is_none() {
                                            self.trace.violation = Some(ClaimViolation {
                                                kind: "constant-claim-wrong:assignment".into(),
                                                detail: format!("`{s:?}` is claimed to assign the constant {claim} but assigns {actual} (path {:?})", self.trace.path),
                                            });
                                        }
                                    }
                                }
                                self.assign_local(var, v);
                            }
                            Some(_) => {
                                // signal or component: remember scalar assignments for value mode
                                let _ = op;
                                if let Expression::Update { access, .. } = rhe {
                                    if let (Some(key), Some(Val::F(x))) = (self.access_key(var, access), v) {
                                        if matches!(op, AssignOp::AssignSignal | AssignOp::AssignConstraintSignal) {
                                            self.signals.insert(key, x);
                                        }
                                    }
                                } else if let (Some(key), Some(Val::F(x))) = (self.access_key(var, &[]), v) {
                                    if matches!(op, AssignOp::AssignSignal | AssignOp::AssignConstraintSignal) {
                                        self.signals.insert(key, x);
                                    }
                                }
                            }
                            None => {}
                        }
                    }
                    Statement::ConstraintEquality { lhe, rhe, .. } => {
                        let _ = self.eval(lhe);
                        let _ = self.eval(rhe);
                    }
                    Statement::LogCall { args, .. } => {
                        for a in args {
                            if let program_structure::ir::LogArgument::Expr(e) = a {
                                let _ = self.eval(e);
                            }
                        }
                    }
                    Statement::Assert { arg, .. } => {
                        let _ = self.eval(arg);
                    }
                    Statement::Return { value, .. } => {
                        let _ = self.eval(value);
                        self.trace.completed = true;
                        return;
                    }
                    Statement::IfThenElse { cond, true_index, false_index, .. } => {
                        let c = self.eval(cond);
                        let decided = match c {
                            Some(Val::F(x)) => Some(!x.is_zero()),
                            _ => None,
                        };
                        branch = Some((*true_index, *false_index, decided));
                    }
                }
            }
            let succ: Vec<usize> = {
                let mut v: Vec<usize> = bb.successors().iter().copied().collect();
                v.sort_unstable();
                v
            };
            let next = match branch {
                Some((t, f, decided)) => {
                    let take = decided.unwrap_or_else(|| self.choices.chance(1, 2));
                    if take { Some(t) } else { f.or_else(|| succ.iter().copied().find(|s| *s != t)) }
                }
                None => succ.first().copied(),
            };
            match next {
                Some(n) if self.trace.path.len() < 400 => b = n,
                _ => {
                    self.trace.completed = next.is_none();
                    return;
                }
            }
        }
    }
}

/// All expression nodes of the CFG with a claimed degree upper bound of at most quadratic.
pub fn degree_claims(cfg: &Cfg) -> Vec<(NodeId, usize, String)> {
    fn walk(e: &Expression, out: &mut Vec<(NodeId, usize, String)>) {
        if let Some(r) = e.meta().degree_knowledge().degree() {
            let d = match r.end() {
                Degree::Constant => Some(0),
                Degree::Linear => Some(1),
                Degree::Quadratic => Some(2),
                Degree::NonQuadratic => None,
            };
            if let Some(d) = d {
                out.push((node_id(e), d, format!("{e:?}")));
            }
        }
        use Expression::*;
        match e {
            InfixOp { lhe, rhe, .. } => {
                walk(lhe, out);
                walk(rhe, out);
            }
            PrefixOp { rhe, .. } => walk(rhe, out),
            SwitchOp { cond, if_true, if_false, .. } => {
                walk(cond, out);
                walk(if_true, out);
                walk(if_false, out);
            }
            Call { args, .. } => args.iter().for_each(|a| walk(a, out)),
            InlineArray { values, .. } => values.iter().for_each(|a| walk(a, out)),
            Access { access, .. } => {
                for a in access {
                    if let AccessType::ArrayAccess(i) = a {
                        walk(i, out);
                    }
                }
            }
            Update { access, rhe, .. } => {
                walk(rhe, out);
                for a in access {
                    if let AccessType::ArrayAccess(i) = a {
                        walk(i, out);
                    }
                }
            }
            Variable { .. } | Number(..) | Phi { .. } => {}
        }
    }
    let mut out = Vec::new();
    for bb in cfg.iter() {
        for s in bb.iter() {
            use Statement::*;
            match s {
                Declaration { dimensions, .. } => dimensions.iter().for_each(|d| walk(d, &mut out)),
                IfThenElse { cond, .. } => walk(cond, &mut out),
                Return { value, .. } => walk(value, &mut out),
                Substitution { rhe, .. } => walk(rhe, &mut out),
                ConstraintEquality { lhe, rhe, .. } => {
                    walk(lhe, &mut out);
                    walk(rhe, &mut out);
                }
                LogCall { args, .. } => {
                    for a in args {
                        if let program_structure::ir::LogArgument::Expr(e) = a {
                            walk(e, &mut out);
                        }
                    }
                }
                Assert { arg, .. } => walk(arg, &mut out),
            }
        }
    }
    out
}

/// Finite-difference test of every degree claim along one random line in signal space.
/// Returns (claims judged, first violation).
pub fn check_degrees(cfg: &Cfg, f: &Field, choice_seed: u64, line_seed: u64, extra: &[(NodeId, usize, String)]) -> (usize, Option<ClaimViolation>) {
    let mut claims = degree_claims(cfg);
    claims.extend(extra.iter().cloned());
    if claims.is_empty() {
        return (0, None);
    }
    // runs for t = 0..=3 (enough for d <= 2)
    let mut traces = Vec::new();
    for t in 0..4u64 {
        let mut it = Interp::new(cfg, f, Mode::Degrees, choice_seed, line_seed, t);
        it.run();
        traces.push(it.trace);
    }
    // the control path must not depend on t
    if traces.iter().any(|tr| tr.path != traces[0].path) {
        return (0, None);
    }
    let mut judged = 0;
    for (id, d, text) in claims {
        let seqs: Vec<&Vec<Option<BigInt>>> = match traces.iter().map(|tr| tr.node_values.get(&id)).collect::<Option<Vec<_>>>() {
            Some(s) => s,
            None => continue,
        };
        let n = seqs.iter().map(|s| s.len()).min().unwrap_or(0);
        if seqs.iter().any(|s| s.len() != n) {
            continue;
        }
        for k in 0..n {
            let vals: Option<Vec<BigInt>> = seqs.iter().map(|s| s[k].clone()).collect();
            let Some(vals) = vals else { continue };
            judged += 1;
            // (d+1)-th finite difference over t = 0..d+1
            let mut diff: Vec<BigInt> = vals[..(d + 2)].to_vec();
            for _ in 0..(d + 1) {
                diff = diff.windows(2).map(|w| f.norm(&(&w[1] - &w[0]))).collect();
            }
            if !diff[0].is_zero() {
                let names = ["constant", "linear", "quadratic"];
                return (
                    judged,
                    Some(ClaimViolation {
                        kind: format!("degree-claim-wrong:{}", names[d]),
                        detail: format!(
                            "node `{text}` is claimed to be at most {} in the signals, but its {}-th finite difference along a line in signal space is {} (values {:?})",
                            names[d],
                            d + 1,
                            diff[0],
                            &vals[..(d + 2)]
                        ),
                    }),
                );
            }
        }
    }
    (judged, None)
}
