//! Tier L: the repository's library crates run inside the harness process on
//! a fresh thread per simulated run. The harness binary itself defines
//! `getrandom` and `clock_gettime`; the static linker resolves std's references
//! to these definitions, so `RandomState` (hash order) and `Instant` (the time
//! box) obey the simulator on threads that are "in simulation" and fall through
//! to the real system calls everywhere else.

use std::cell::RefCell;

#[derive(Clone, Debug, Default)]
pub struct SimClock {
    pub state: u64,
    pub max_step_ns: i64,
    pub now_ns: i64,
    pub reads: usize,
    /// (read index, extra ns)
    pub stalls: Vec<(usize, i64)>,
    /// per-read stall probability in 1/1000 and its size
    pub stall_permille: u32,
    pub stalls_fired: usize,
    pub first_ns: i64,
    /// (read index, ns): from that read on the wall clock is that much behind
    pub wall_back: Vec<(usize, i64)>,
    pub wall_offset_ns: i64,
    pub wall_reads: usize,
    pub backsteps_fired: usize,
}

#[derive(Clone, Debug, Default)]
struct SimCtx {
    active: bool,
    key: [u8; 16],
    getrandom_calls: usize,
    clock: SimClock,
}

thread_local! {
    static SIM: RefCell<SimCtx> = const { RefCell::new(SimCtx {
        active: false, key: [0; 16], getrandom_calls: 0,
        clock: SimClock { state: 0, max_step_ns: 0, now_ns: 0, reads: 0, stalls: Vec::new(), stall_permille: 0, stalls_fired: 0, first_ns: 0, wall_back: Vec::new(), wall_offset_ns: 0, wall_reads: 0, backsteps_fired: 0 },
    }) };
}

fn splitmix(s: &mut u64) -> u64 {
    *s = s.wrapping_add(0x9E3779B97F4A7C15);
    let mut z = *s;
    z = (z ^ (z >> 30)).wrapping_mul(0xBF58476D1CE4E5B9);
    z = (z ^ (z >> 27)).wrapping_mul(0x94D049BB133111EB);
    z ^ (z >> 31)
}

#[no_mangle]
pub unsafe extern "C" fn getrandom(buf: *mut libc::c_void, buflen: libc::size_t, flags: libc::c_uint) -> libc::ssize_t {
    let handled = SIM
        .try_with(|s| {
            let Ok(mut s) = s.try_borrow_mut() else { return false };
            if !s.active {
                return false;
            }
            let out = std::slice::from_raw_parts_mut(buf as *mut u8, buflen);
            let mut st = u64::from_le_bytes(s.key[..8].try_into().unwrap()) ^ (s.getrandom_calls as u64).wrapping_mul(0xA24BAED4963EE407);
            for (i, b) in out.iter_mut().enumerate() {
                *b = if s.getrandom_calls == 0 && i < 16 { s.key[i] } else { splitmix(&mut st) as u8 };
            }
            s.getrandom_calls += 1;
            true
        })
        .unwrap_or(false);
    if handled {
        buflen as libc::ssize_t
    } else {
        libc::syscall(libc::SYS_getrandom, buf, buflen, flags) as libc::ssize_t
    }
}

#[no_mangle]
pub unsafe extern "C" fn clock_gettime(clk: libc::clockid_t, ts: *mut libc::timespec) -> libc::c_int {
    let handled = SIM
        .try_with(|s| {
            let Ok(mut s) = s.try_borrow_mut() else { return false };
            // both clocks live on one simulated time line; the wall clock may also step back
            if !s.active || (clk != libc::CLOCK_MONOTONIC && clk != libc::CLOCK_REALTIME) {
                return false;
            }
            let c = &mut s.clock;
            let idx = c.reads;
            c.reads += 1;
            let step = if c.max_step_ns > 0 { (splitmix(&mut c.state) % (c.max_step_ns as u64 + 1)) as i64 } else { 0 };
            c.now_ns += step;
            let mut stalled = 0i64;
            for (i, ns) in &c.stalls {
                if *i == idx {
                    stalled += *ns;
                }
            }
            if c.stall_permille > 0 && splitmix(&mut c.state) % 1000 < c.stall_permille as u64 {
                stalled += 11_000_000_000;
            }
            if stalled > 0 {
                c.stalls_fired += 1;
            }
            c.now_ns += stalled;
            if idx == 0 {
                c.first_ns = c.now_ns;
            }
            for k in 0..c.wall_back.len() {
                if c.wall_back[k].0 == idx {
                    c.wall_offset_ns -= c.wall_back[k].1;
                    c.backsteps_fired += 1;
                }
            }
            let t = if clk == libc::CLOCK_REALTIME {
                c.wall_reads += 1;
                1_700_000_000_000_000_000 + c.now_ns + c.wall_offset_ns
            } else {
                c.now_ns
            };
            (*ts).tv_sec = t / 1_000_000_000;
            (*ts).tv_nsec = t % 1_000_000_000;
            true
        })
        .unwrap_or(false);
    if handled {
        0
    } else {
        libc::syscall(libc::SYS_clock_gettime, clk, ts) as libc::c_int
    }
}

#[derive(Clone, Debug)]
pub struct SimPlan {
    pub key: [u8; 16],
    pub clock_seed: u64,
    pub max_step_ns: i64,
    pub stalls: Vec<(usize, i64)>,
    pub stall_permille: u32,
    pub wall_back: Vec<(usize, i64)>,
}

impl SimPlan {
    pub fn quiet(key: [u8; 16], clock_seed: u64) -> SimPlan {
        SimPlan { key, clock_seed, max_step_ns: 50_000, stalls: vec![], stall_permille: 0, wall_back: vec![] }
    }
}

#[derive(Clone, Debug, Default)]
pub struct SimStats {
    pub clock_reads: usize,
    pub stalls_fired: usize,
    pub backsteps_fired: usize,
    pub wall_reads: usize,
    pub sim_ns: i64,
    pub getrandom_calls: usize,
}

pub enum SimResult<T> {
    Ok(T),
    Panic(String),
}

thread_local! {
    static LAST_PANIC: RefCell<Option<String>> = const { RefCell::new(None) };
}

/// Install once: panics on simulated threads are recorded, not printed.
pub fn install_quiet_panic_hook() {
    static ONCE: std::sync::Once = std::sync::Once::new();
    ONCE.call_once(|| {
        let default = std::panic::take_hook();
        std::panic::set_hook(Box::new(move |info| {
            let in_sim = SIM.try_with(|s| s.try_borrow().map(|s| s.active).unwrap_or(true)).unwrap_or(false);
            if in_sim {
                let loc = info.location().map(|l| format!("{}:{}", l.file(), l.line())).unwrap_or_default();
                let msg = if let Some(s) = info.payload().downcast_ref::<&str>() {
                    s.to_string()
                } else if let Some(s) = info.payload().downcast_ref::<String>() {
                    s.clone()
                } else {
                    "panic".to_string()
                };
                LAST_PANIC.with(|p| *p.borrow_mut() = Some(format!("{loc}: {msg}")));
            } else {
                default(info);
            }
        }));
    });
}

/// Run `f` on a fresh thread under the simulated hash key and clock.
pub fn run_in_sim<T: Send + 'static, F: FnOnce() -> T + Send + 'static>(plan: &SimPlan, f: F) -> (SimResult<T>, SimStats) {
    install_quiet_panic_hook();
    let plan = plan.clone();
    let handle = std::thread::Builder::new()
        .stack_size(8 << 20)
        .spawn(move || {
            SIM.with(|s| {
                let mut s = s.borrow_mut();
                s.active = true;
                s.key = plan.key;
                s.getrandom_calls = 0;
                s.clock = SimClock {
                    state: plan.clock_seed,
                    max_step_ns: plan.max_step_ns,
                    now_ns: 1_000_000_000,
                    reads: 0,
                    stalls: plan.stalls.clone(),
                    stall_permille: plan.stall_permille,
                    stalls_fired: 0,
                    first_ns: 0,
                    wall_back: plan.wall_back.clone(),
                    wall_offset_ns: 0,
                    wall_reads: 0,
                    backsteps_fired: 0,
                };
            });
            let r = std::panic::catch_unwind(std::panic::AssertUnwindSafe(f));
            let stats = SIM.with(|s| {
                let mut s = s.borrow_mut();
                s.active = false;
                SimStats {
                    clock_reads: s.clock.reads,
                    stalls_fired: s.clock.stalls_fired,
                    backsteps_fired: s.clock.backsteps_fired,
                    wall_reads: s.clock.wall_reads,
                    sim_ns: if s.clock.reads > 0 { s.clock.now_ns - s.clock.first_ns } else { 0 },
                    getrandom_calls: s.getrandom_calls,
                }
            });
            let res = match r {
                Ok(v) => SimResult::Ok(v),
                Err(_) => SimResult::Panic(LAST_PANIC.with(|p| p.borrow_mut().take()).unwrap_or_else(|| "panic".into())),
            };
            (res, stats)
        })
        .expect("spawn simulated thread");
    match handle.join() {
        Ok(x) => x,
        Err(_) => (SimResult::Panic("simulated thread died".into()), SimStats::default()),
    }
}

/// The repository crates log through the `log` facade; a record is built (its arguments
/// are evaluated) only if the level is enabled, and its `Display` / `Debug` implementations
/// run only if somebody formats it. This logger formats every record and throws the text
/// away, so that `RUST_LOG=trace` behaviour can be part of a tier-L run. The level is
/// process-wide: checks switch it between phases, not between threads.
struct SinkLogger;

impl log::Log for SinkLogger {
    fn enabled(&self, _: &log::Metadata) -> bool {
        true
    }
    fn log(&self, record: &log::Record) {
        struct Sink;
        impl std::fmt::Write for Sink {
            fn write_str(&mut self, _: &str) -> std::fmt::Result {
                Ok(())
            }
        }
        let _ = std::fmt::write(&mut Sink, *record.args());
    }
    fn flush(&self) {}
}

pub fn set_log_level(trace: bool) {
    static ONCE: std::sync::Once = std::sync::Once::new();
    static LOGGER: SinkLogger = SinkLogger;
    ONCE.call_once(|| {
        let _ = log::set_logger(&LOGGER);
    });
    log::set_max_level(if trace { log::LevelFilter::Trace } else { log::LevelFilter::Off });
}
