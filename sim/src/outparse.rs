//! Parsers for what the user sees: the diagnostics and log lines on stdout
//! (codespan's plain rendering) and the SARIF file.

use serde_json::Value;

#[derive(Clone, Debug, PartialEq, Eq, PartialOrd, Ord)]
pub struct Loc {
    pub path: String,
    pub line: u32,
    pub col: u32,
}

#[derive(Clone, Debug, PartialEq, Eq)]
pub struct Diag {
    /// error | warning | note (codespan prints Info as `note`)
    pub severity: String,
    /// Present only with --verbose.
    pub code: Option<String>,
    pub message: String,
    /// Every `┌─ path:line:col` / `┌─ ...` file header of the snippet, in order.
    pub locs: Vec<Loc>,
    pub notes: Vec<String>,
    /// Label texts found next to `^^^` / `---` underlines.
    pub labels: Vec<String>,
    /// Source lines shown in the snippet (`NN │ text`), markers of multi-line labels removed.
    pub src_lines: Vec<String>,
}

#[derive(Clone, Debug, PartialEq, Eq)]
pub enum Summary {
    None_,
    Count(usize),
}

#[derive(Clone, Debug, Default)]
pub struct Stdout {
    pub diags: Vec<Diag>,
    /// (kind, name) of every `analyzing <kind> '<name>'` line, in order.
    pub analyzing: Vec<(String, String)>,
    pub result_written: Option<String>,
    /// The summary if the LAST line of stdout is a summary line.
    pub summary: Option<Summary>,
    pub other_messages: Vec<String>,
    /// Lines that fit no known shape (a harness error if non-empty where strictness matters).
    pub unparsed: Vec<String>,
}

fn parse_header(line: &str) -> Option<(String, Option<String>, String)> {
    for sev in ["error", "warning", "note", "help", "bug"] {
        if let Some(rest) = line.strip_prefix(sev) {
            if let Some(msg) = rest.strip_prefix(": ") {
                return Some((sev.to_string(), None, msg.to_string()));
            }
            if rest == ":" {
                return Some((sev.to_string(), None, String::new()));
            }
            if let Some(r) = rest.strip_prefix('[') {
                if let Some(end) = r.find("]:") {
                    let code = &r[..end];
                    if !code.is_empty() && code.chars().all(|c| c.is_ascii_alphanumeric()) {
                        let msg = r[end + 2..].strip_prefix(' ').unwrap_or(&r[end + 2..]);
                        return Some((sev.to_string(), Some(code.to_string()), msg.to_string()));
                    }
                }
            }
        }
    }
    None
}

fn parse_loc(s: &str) -> Option<Loc> {
    // path:line:col, path may contain ':'
    let mut it = s.rsplitn(3, ':');
    let col = it.next()?.trim().parse::<u32>().ok()?;
    let line = it.next()?.trim().parse::<u32>().ok()?;
    let path = it.next()?.to_string();
    Some(Loc { path, line, col })
}

pub fn parse_stdout(text: &str) -> Stdout {
    let mut out = Stdout::default();
    let mut cur: Option<Diag> = None;
    let mut in_notes = false;
    let lines: Vec<&str> = text.lines().collect();
    for raw in &lines {
        let line = raw.trim_end_matches('\r');
        if let Some(msg) = line.strip_prefix("circomspect: ") {
            if let Some(d) = cur.take() {
                out.diags.push(d);
            }
            in_notes = false;
            if let Some(rest) = msg.strip_prefix("analyzing ") {
                // analyzing template 'X' / analyzing function 'X'
                if let Some((kind, name)) = rest.split_once(' ') {
                    let name = name.trim_matches('\'').to_string();
                    out.analyzing.push((kind.to_string(), name));
                    continue;
                }
            }
            if let Some(rest) = msg.strip_prefix("Result written to `") {
                out.result_written = Some(rest.trim_end_matches("`.").to_string());
                continue;
            }
            out.other_messages.push(msg.to_string());
            continue;
        }
        if let Some((severity, code, message)) = parse_header(line) {
            if let Some(d) = cur.take() {
                out.diags.push(d);
            }
            in_notes = false;
            cur = Some(Diag { severity, code, message, locs: vec![], notes: vec![], labels: vec![], src_lines: vec![] });
            continue;
        }
        let Some(d) = cur.as_mut() else {
            if !line.trim().is_empty() {
                out.unparsed.push(line.to_string());
            }
            continue;
        };
        let t = line.trim_start();
        if let Some(rest) = t.strip_prefix("┌─ ") {
            if let Some(l) = parse_loc(rest) {
                d.locs.push(l);
            }
            in_notes = false;
            continue;
        }
        if let Some(rest) = t.strip_prefix("= ") {
            d.notes.push(rest.to_string());
            in_notes = true;
            continue;
        }
        if t.is_empty() {
            // A blank line ends the diagnostic.
            if let Some(d) = cur.take() {
                out.diags.push(d);
            }
            in_notes = false;
            continue;
        }
        // gutter lines: "NN │ text", "   │ ^^^ label", "   · "
        let has_gutter = {
            let g = t.trim_start_matches(|c: char| c.is_ascii_digit()).trim_start();
            g.starts_with('│') || g.starts_with('·') || g.starts_with('╭') || g.starts_with('╰') || g.starts_with('┌') || g.starts_with('=')
        };
        if has_gutter {
            in_notes = false;
            // label text after an underline
            if let Some(pos) = t.find('│') {
                let after = &t[pos + '│'.len_utf8()..];
                if t.starts_with(|c: char| c.is_ascii_digit()) {
                    let text = after.trim_start_matches(|c: char| c == ' ' || c == '│' || c == '╭' || c == '╰' || c == '─' || c == '╮' || c == '╯').trim_end();
                    d.src_lines.push(text.to_string());
                }
                let a = after.trim_start_matches(|c: char| c == ' ' || c == '│' || c == '╭' || c == '╰' || c == '─');
                if a.starts_with('^') || a.starts_with('-') {
                    let txt = a.trim_start_matches(|c: char| c == '^' || c == '-').trim();
                    if !txt.is_empty() {
                        d.labels.push(txt.to_string());
                    }
                }
            }
            continue;
        }
        if in_notes {
            // continuation of a multi-line note
            if let Some(last) = d.notes.last_mut() {
                last.push('\n');
                last.push_str(t);
            }
            continue;
        }
        if d.locs.is_empty() && d.notes.is_empty() {
            // continuation of a multi-line message
            d.message.push('\n');
            d.message.push_str(line);
            continue;
        }
        out.unparsed.push(line.to_string());
    }
    if let Some(d) = cur.take() {
        out.diags.push(d);
    }
    // Summary: must be the last non-empty line.
    if let Some(last) = lines.iter().rev().find(|l| !l.trim().is_empty()) {
        if let Some(msg) = last.strip_prefix("circomspect: ") {
            if msg == "No issues found." {
                out.summary = Some(Summary::None_);
            } else if msg == "1 issue found." {
                out.summary = Some(Summary::Count(1));
            } else if let Some(n) = msg.strip_suffix(" issues found.") {
                if let Ok(n) = n.parse::<usize>() {
                    out.summary = Some(Summary::Count(n));
                }
            }
        }
    }
    // The summary line was also recorded in other_messages; drop it there.
    if out.summary.is_some() {
        out.other_messages.pop();
    }
    out
}

#[derive(Clone, Debug, PartialEq, Eq, PartialOrd, Ord)]
pub struct SarifLoc {
    pub uri: String,
    pub start_line: i64,
    pub start_col: i64,
    pub end_line: i64,
    pub end_col: i64,
    pub message: String,
}

#[derive(Clone, Debug, PartialEq, Eq, PartialOrd, Ord)]
pub struct SarifResult {
    pub rule_id: String,
    pub level: String,
    pub message: String,
    pub locations: Vec<SarifLoc>,
    pub related: Vec<SarifLoc>,
}

#[derive(Clone, Debug, Default)]
pub struct Sarif {
    pub results: Vec<SarifResult>,
    /// (id, name) rule descriptors of the driver
    pub rules: Vec<(String, String)>,
}

fn sarif_loc(v: &Value) -> Option<SarifLoc> {
    let pl = v.get("physicalLocation")?;
    let uri = pl.get("artifactLocation")?.get("uri")?.as_str()?.to_string();
    let r = pl.get("region")?;
    Some(SarifLoc {
        uri,
        start_line: r.get("startLine")?.as_i64()?,
        start_col: r.get("startColumn")?.as_i64()?,
        end_line: r.get("endLine").and_then(|x| x.as_i64()).unwrap_or(-1),
        end_col: r.get("endColumn").and_then(|x| x.as_i64()).unwrap_or(-1),
        message: v.get("message").and_then(|m| m.get("text")).and_then(|t| t.as_str()).unwrap_or("").to_string(),
    })
}

pub fn parse_sarif(text: &str) -> Result<Sarif, String> {
    let v: Value = serde_json::from_str(text).map_err(|e| format!("sarif json: {e}"))?;
    let runs = v.get("runs").and_then(|r| r.as_array()).ok_or("sarif: no runs")?;
    let mut out = Sarif::default();
    for run in runs {
        if let Some(rules) = run
            .get("tool")
            .and_then(|t| t.get("driver"))
            .and_then(|d| d.get("rules"))
            .and_then(|r| r.as_array())
        {
            for r in rules {
                out.rules.push((
                    r.get("id").and_then(|x| x.as_str()).unwrap_or("").to_string(),
                    r.get("name").and_then(|x| x.as_str()).unwrap_or("").to_string(),
                ));
            }
        }
        if let Some(results) = run.get("results").and_then(|r| r.as_array()) {
            for r in results {
                let locations = r
                    .get("locations")
                    .and_then(|l| l.as_array())
                    .map(|a| a.iter().filter_map(sarif_loc).collect())
                    .unwrap_or_default();
                let related = r
                    .get("relatedLocations")
                    .and_then(|l| l.as_array())
                    .map(|a| a.iter().filter_map(sarif_loc).collect())
                    .unwrap_or_default();
                out.results.push(SarifResult {
                    rule_id: r.get("ruleId").and_then(|x| x.as_str()).unwrap_or("").to_string(),
                    level: r.get("level").and_then(|x| x.as_str()).unwrap_or("").to_string(),
                    message: r
                        .get("message")
                        .and_then(|m| m.get("text"))
                        .and_then(|t| t.as_str())
                        .unwrap_or("")
                        .to_string(),
                    locations,
                    related,
                });
            }
        }
    }
    Ok(out)
}

/// Panic site from stderr: (`file:line:col`, first line of the message).
pub fn panic_site(stderr: &str) -> Option<(String, String)> {
    // thread 'main' panicked at program_structure/src/...rs:28:13:\nmessage
    let idx = stderr.find("panicked at ")?;
    let rest = &stderr[idx + "panicked at ".len()..];
    let first = rest.lines().next().unwrap_or("");
    // Newer format: "path:line:col:" then message on following line.
    // Older format: "'message', path:line:col".
    if first.starts_with('\'') {
        if let Some(p) = first.rfind("', ") {
            let msg = first[1..p].to_string();
            let site = first[p + 3..].trim().to_string();
            return Some((site, msg));
        }
    }
    let site = first.trim_end_matches(':').to_string();
    let msg = rest.lines().nth(1).unwrap_or("").to_string();
    Some((site, msg))
}
