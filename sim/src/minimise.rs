//! Shrinking of a failing case while the same violation signature persists.

use crate::world::{Body, Case};

/// Classic ddmin over a list of chunks; `test` returns true if the failure persists.
pub fn ddmin<T: Clone>(items: Vec<T>, test: &mut dyn FnMut(&[T]) -> bool, max_tests: &mut usize) -> Vec<T> {
    let mut cur = items;
    let mut n = 2usize;
    while cur.len() >= 2 && *max_tests > 0 {
        let chunk = (cur.len() + n - 1) / n;
        let mut reduced = false;
        let mut start = 0;
        while start < cur.len() && *max_tests > 0 {
            let end = (start + chunk).min(cur.len());
            let mut cand: Vec<T> = Vec::with_capacity(cur.len() - (end - start));
            cand.extend_from_slice(&cur[..start]);
            cand.extend_from_slice(&cur[end..]);
            *max_tests -= 1;
            if !cand.is_empty() && test(&cand) {
                cur = cand;
                n = (n - 1).max(2);
                reduced = true;
                break;
            }
            start = end;
        }
        if !reduced {
            if n >= cur.len() {
                break;
            }
            n = (n * 2).min(cur.len());
        }
    }
    // try the empty list and single removal at the end
    if cur.len() == 1 && *max_tests > 0 {
        *max_tests -= 1;
        if test(&[]) {
            return vec![];
        }
    }
    cur
}

/// Shrink a case. `fails(case)` must be deterministic and return true while the
/// same violation signature is observed.
pub fn minimise_case(case: &Case, fails: &mut dyn FnMut(&Case) -> bool, budget: usize) -> Case {
    let mut best = case.clone();
    let mut left = budget;

    // 1. faults and timing
    {
        let faults = best.plan.faults.clone();
        let base = best.clone();
        let kept = ddmin(
            faults,
            &mut |fs| {
                let mut c = base.clone();
                c.plan.faults = fs.to_vec();
                fails(&c)
            },
            &mut left,
        );
        if kept.len() < best.plan.faults.len() {
            let mut c = best.clone();
            c.plan.faults = kept;
            if fails(&c) {
                best = c;
            }
        }
        if best.plan.faults.len() == 1 {
            let mut c = best.clone();
            c.plan.faults.clear();
            if fails(&c) {
                best = c;
            }
        }
        let stalls = best.plan.stalls.clone();
        if !stalls.is_empty() {
            let base = best.clone();
            let kept = ddmin(
                stalls,
                &mut |ss| {
                    let mut c = base.clone();
                    c.plan.stalls = ss.to_vec();
                    fails(&c)
                },
                &mut left,
            );
            let mut c = best.clone();
            c.plan.stalls = kept;
            if fails(&c) {
                best = c;
            }
            let mut c = best.clone();
            c.plan.stalls.clear();
            if fails(&c) {
                best = c;
            }
        }
        for tweak in 0..4 {
            let mut c = best.clone();
            match tweak {
                0 => c.plan.stall_permille = 0,
                1 => {
                    c.plan.shortread = 0;
                    c.plan.shortwrite = 0;
                }
                2 => {
                    c.plan.stderr_errno = 0;
                    c.plan.stdout_errno = 0;
                    c.plan.env.clear();
                    c.plan.wall_back.clear();
                }
                _ => c.plan.dirseed = 0,
            }
            if c != best && fails(&c) {
                best = c;
            }
        }
    }

    // 2. options: drop flags with their values
    {
        let mut i = 0;
        while i < best.argv.len() && left > 0 {
            let a = best.argv[i].clone();
            if a.starts_with('-') {
                let takes_value = matches!(a.as_str(), "-l" | "--level" | "-a" | "--allow" | "-c" | "--curve" | "-s" | "--sarif-file" | "-L" | "--library");
                let mut c = best.clone();
                c.argv.remove(i);
                if takes_value && i < c.argv.len() {
                    c.argv.remove(i);
                }
                left -= 1;
                if fails(&c) {
                    best = c;
                    continue;
                }
                i += if takes_value { 2 } else { 1 };
            } else {
                i += 1;
            }
        }
    }

    // 3. files that can go entirely
    {
        let names: Vec<String> = best.world.files.keys().cloned().collect();
        for n in names {
            if left == 0 {
                break;
            }
            let mut c = best.clone();
            c.world.files.remove(&n);
            c.argv.retain(|a| a != &n);
            left -= 1;
            if !c.world.files.is_empty() && fails(&c) {
                best = c;
            }
        }
        let links: Vec<String> = best.world.symlinks.keys().cloned().collect();
        for n in links {
            let mut c = best.clone();
            c.world.symlinks.remove(&n);
            if left > 0 {
                left -= 1;
                if fails(&c) {
                    best = c;
                }
            }
        }
    }

    // 4. file contents: lines, then whitespace-separated tokens
    {
        let names: Vec<String> = best.world.files.keys().cloned().collect();
        for n in names {
            let Some(Body::Text { text }) = best.world.files.get(&n).cloned() else { continue };
            let lines: Vec<String> = text.split_inclusive('\n').map(|s| s.to_string()).collect();
            let base = best.clone();
            let kept = ddmin(
                lines,
                &mut |ls| {
                    let mut c = base.clone();
                    c.world.files.insert(n.clone(), Body::Text { text: ls.concat() });
                    fails(&c)
                },
                &mut left,
            );
            let mut c = best.clone();
            c.world.files.insert(n.clone(), Body::Text { text: kept.concat() });
            if fails(&c) {
                best = c;
            }
            // tokens
            let Some(Body::Text { text }) = best.world.files.get(&n).cloned() else { continue };
            if text.len() > 20000 {
                continue;
            }
            let toks: Vec<String> = split_keep_ws(&text);
            let base = best.clone();
            let kept = ddmin(
                toks,
                &mut |ts| {
                    let mut c = base.clone();
                    c.world.files.insert(n.clone(), Body::Text { text: ts.concat() });
                    fails(&c)
                },
                &mut left,
            );
            let mut c = best.clone();
            c.world.files.insert(n.clone(), Body::Text { text: kept.concat() });
            if fails(&c) {
                best = c;
            }
        }
    }

    // 5. smallest hash key that still fails
    {
        for k in 0u8..32 {
            if left == 0 {
                break;
            }
            let mut c = best.clone();
            let mut key = [0u8; 16];
            key[0] = k;
            c.plan.set_hashkey(key);
            left -= 1;
            if fails(&c) {
                best = c;
                break;
            }
        }
    }
    best
}

/// Split into tokens where each token carries its trailing whitespace.
fn split_keep_ws(text: &str) -> Vec<String> {
    let mut out = Vec::new();
    let mut cur = String::new();
    let mut in_ws = false;
    for ch in text.chars() {
        if ch.is_whitespace() {
            in_ws = true;
            cur.push(ch);
        } else {
            if in_ws {
                out.push(std::mem::take(&mut cur));
                in_ws = false;
            }
            cur.push(ch);
        }
    }
    if !cur.is_empty() {
        out.push(cur);
    }
    out
}
