//! Pieces shared by the tier-P checks: option sets, quiet plans, findings
//! normalisation, corruption of file contents.

use crate::gen::{Project, Style};
use crate::outparse::{parse_sarif, parse_stdout, Sarif, Stdout};
use crate::procrun::{Exit, Outcome};
use crate::rng::Rng;
use crate::world::{Body, Case, Plan, World};

pub const CURVES: [&str; 8] =
    ["BN254", "bn254", "BLS12_381", "bls12_381", "GOLDILOCKS", "goldilocks", "Bn254", "Goldilocks"];
pub const LEVELS: [&str; 6] = ["info", "warning", "error", "INFO", "Warning", "ERROR"];
pub const KNOWN_IDS: [&str; 12] = [
    "CS0001", "CS0005", "CS0006", "CS0007", "CS0008", "CS0009", "CS0010", "CS0013", "CS0014", "CS0016", "CS0017", "CA01",
];

#[derive(Clone, Debug)]
pub struct Opts {
    pub curve: Option<String>,
    pub level: Option<String>,
    pub allow: Vec<String>,
    pub verbose: bool,
    pub sarif: Option<String>,
}

impl Opts {
    pub fn base() -> Opts {
        Opts { curve: None, level: Some("info".into()), allow: vec![], verbose: true, sarif: Some("out.sarif".into()) }
    }
    pub fn random(rng: &mut Rng) -> Opts {
        let curve = if rng.chance(1, 2) { Some(rng.pick(&CURVES).to_string()) } else { None };
        let level = if rng.chance(2, 3) { Some(rng.pick(&LEVELS).to_string()) } else { None };
        let mut allow = Vec::new();
        if rng.chance(1, 3) {
            for _ in 0..1 + rng.usize(3) {
                allow.push(rng.pick(&KNOWN_IDS).to_string());
            }
        }
        Opts { curve, level, allow, verbose: rng.chance(1, 2), sarif: if rng.chance(1, 2) { Some("out.sarif".into()) } else { None } }
    }
    pub fn argv(&self) -> Vec<String> {
        let mut v = Vec::new();
        if let Some(c) = &self.curve {
            v.push("--curve".into());
            v.push(c.clone());
        }
        if let Some(l) = &self.level {
            v.push("--level".into());
            v.push(l.clone());
        }
        for a in &self.allow {
            v.push("--allow".into());
            v.push(a.clone());
        }
        if self.verbose {
            v.push("--verbose".into());
        }
        if let Some(s) = &self.sarif {
            v.push("--sarif-file".into());
            v.push(s.clone());
        }
        v
    }
}

pub fn quiet_plan(rng: &mut Rng) -> Plan {
    let key = rng.bytes16();
    Plan::quiet(key, rng.next_u64())
}

pub fn make_case(project: &Project, world: World, opts: &Opts, plan: Plan) -> Case {
    let mut argv = opts.argv();
    for l in &project.libs {
        argv.push("-L".into());
        argv.push(l.clone());
    }
    argv.extend(project.named_paths());
    Case { world, argv, plan }
}

pub fn render_project(project: &Project, rng: &mut Rng, style: &Style) -> World {
    project.render(rng, style)
}

/// Content corruption applied to what a file "reads as" (torn write, bad medium).
#[derive(Clone, Debug)]
pub enum Corruption {
    Truncate(usize),
    BitFlip(usize, u8),
    ZeroRange(usize, usize),
    DupRange(usize, usize),
    BadUtf8(usize),
}

impl Corruption {
    pub fn random(rng: &mut Rng, len: usize) -> Corruption {
        let len = len.max(1);
        match rng.usize(5) {
            0 => Corruption::Truncate(rng.usize(len)),
            1 => Corruption::BitFlip(rng.usize(len), rng.usize(8) as u8),
            2 => {
                let a = rng.usize(len);
                Corruption::ZeroRange(a, 1 + rng.usize(16))
            }
            3 => {
                let a = rng.usize(len);
                Corruption::DupRange(a, 1 + rng.usize(32))
            }
            _ => Corruption::BadUtf8(rng.usize(len)),
        }
    }
    pub fn kind(&self) -> &'static str {
        match self {
            Corruption::Truncate(_) => "truncate",
            Corruption::BitFlip(..) => "bitflip",
            Corruption::ZeroRange(..) => "zero-range",
            Corruption::DupRange(..) => "dup-range",
            Corruption::BadUtf8(_) => "bad-utf8",
        }
    }
    pub fn apply(&self, b: &[u8]) -> Vec<u8> {
        let mut v = b.to_vec();
        match *self {
            Corruption::Truncate(k) => v.truncate(k.min(b.len())),
            Corruption::BitFlip(i, bit) => {
                if i < v.len() {
                    v[i] ^= 1 << bit;
                }
            }
            Corruption::ZeroRange(a, n) => {
                for i in a..(a + n).min(v.len()) {
                    v[i] = 0;
                }
            }
            Corruption::DupRange(a, n) => {
                let end = (a + n).min(v.len());
                if a < end {
                    let seg = v[a..end].to_vec();
                    let mut out = v[..end].to_vec();
                    out.extend(seg);
                    out.extend_from_slice(&v[end..]);
                    v = out;
                }
            }
            Corruption::BadUtf8(i) => {
                if i < v.len() {
                    v[i] = 0xff;
                } else {
                    v.push(0xff);
                }
            }
        }
        v
    }
}

pub fn corrupt_file(world: &mut World, path: &str, c: &Corruption) {
    if let Some(body) = world.files.get(path) {
        let nb = c.apply(&body.bytes());
        world.files.insert(path.to_string(), Body::from_bytes(&nb));
    }
}

/// What one run showed the user.
#[derive(Clone, Debug)]
pub struct Seen {
    pub out: Stdout,
    pub sarif: Option<Result<Sarif, String>>,
}

pub fn observe(o: &Outcome) -> Seen {
    Seen { out: parse_stdout(&o.stdout), sarif: o.sarif.as_ref().map(|s| parse_sarif(s)) }
}

pub fn crashed(o: &Outcome) -> bool {
    !matches!(o.exit, Exit::Code(0) | Exit::Code(1)) || o.stderr.contains("panicked at")
}

/// Structural crash signature.
pub fn crash_signature(o: &Outcome) -> Option<String> {
    if let Some((site, msg)) = crate::outparse::panic_site(&o.stderr) {
        // site = path:line:col. The signature keeps the source file and the head of
        // the message but no line number, so that edits elsewhere in the file do not
        // turn a listed finding into a "new" one.
        let path = site.split(':').next().unwrap_or(&site).to_string();
        let short = if let Some(i) = path.find("/registry/src/") {
            let rest = &path[i + "/registry/src/".len()..];
            rest.splitn(2, '/').nth(1).unwrap_or(rest).to_string()
        } else if path.ends_with("/out/lang.rs") {
            "parser/lang.lalrpop(generated)".to_string()
        } else if let Some(i) = path.find("/rustc/") {
            let rest = &path[i + "/rustc/".len()..];
            rest.splitn(2, '/').nth(1).unwrap_or(rest).to_string()
        } else {
            path.clone()
        };
        let head: String = msg.chars().take(48).collect();
        return Some(format!("panic:{short}:{head}"));
    }
    if o.stderr.contains("has overflowed its stack") {
        return Some("resource:stack".to_string());
    }
    if o.stderr.contains("memory allocation of") {
        return Some("resource:memory".to_string());
    }
    match &o.exit {
        Exit::Signal(24) => Some("resource:cpu".to_string()),
        Exit::Signal(s) => Some(format!("signal:{s}")),
        Exit::Watchdog => Some("watchdog".to_string()),
        Exit::Code(c) if *c == crate::procrun::EXIT_EVENT_BUDGET => Some("event-budget".to_string()),
        Exit::Code(c) if *c != 0 && *c != 1 => Some(format!("exit:{c}")),
        _ => None,
    }
}
