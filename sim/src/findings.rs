//! Normalised findings: what a diagnostic says, independent of line numbers
//! and of the order in which diagnostics are printed.

use crate::outparse::{Diag, Stdout};
use crate::world::{World, ROOT_TOKEN};

#[derive(Clone, Debug, PartialEq, Eq, PartialOrd, Ord)]
pub struct NF {
    pub code: String,
    pub severity: String,
    pub message: String,
    /// label texts, sorted
    pub labels: Vec<String>,
    /// trimmed source line under each `┌─ path:line:col` header
    pub loc_texts: Vec<String>,
    /// (sandbox-relative path, line) of the first location
    pub first: Option<(String, usize)>,
}

pub fn rel_path(p: &str) -> String {
    let p = p.strip_prefix(ROOT_TOKEN).unwrap_or(p);
    let p = p.trim_start_matches('/');
    p.to_string()
}

fn line_text(world: &World, path: &str, line: usize) -> String {
    let rel = rel_path(path);
    match world.files.get(&rel) {
        Some(b) => {
            let bytes = b.bytes();
            let text = String::from_utf8_lossy(&bytes);
            text.lines().nth(line.saturating_sub(1)).unwrap_or("").trim().to_string()
        }
        None => format!("<{rel}>"),
    }
}

/// Names the desugaring invents are positional: `anon_var_<line>_<byte offset>`
/// for loops around anonymous components and `<Template>_<line>_<byte offset>`
/// for the anonymous components themselves. The property lets findings change
/// "beyond line numbers", so `<ident>_<digits>_<digits>` is made position
/// independent (`<ident>_N_N`).
pub fn strip_positional_names(s: &str) -> String {
    let chars: Vec<char> = s.chars().collect();
    let is_id = |c: char| c.is_ascii_alphanumeric() || c == '_' || c == '$';
    let mut out = String::new();
    let mut i = 0;
    while i < chars.len() {
        if is_id(chars[i]) && (i == 0 || !is_id(chars[i - 1])) {
            let mut j = i;
            while j < chars.len() && is_id(chars[j]) {
                j += 1;
            }
            let word: String = chars[i..j].iter().collect();
            out.push_str(&strip_word(&word));
            i = j;
        } else {
            out.push(chars[i]);
            i += 1;
        }
    }
    out
}

fn strip_word(w: &str) -> String {
    // <stem>_<digits>_<digits> with a stem that starts with a letter
    let parts: Vec<&str> = w.rsplitn(3, '_').collect();
    if parts.len() == 3 {
        let (b, a, stem) = (parts[0], parts[1], parts[2]);
        let digits = |x: &str| !x.is_empty() && x.chars().all(|c| c.is_ascii_digit());
        if digits(a) && digits(b) && stem.chars().next().map(|c| c.is_ascii_alphabetic()).unwrap_or(false) {
            return format!("{stem}_N_N");
        }
    }
    w.to_string()
}

/// Short, digit-free form of a message for violation signatures.
pub fn message_key(s: &str) -> String {
    let t: String = s.chars().map(|c| if c.is_ascii_digit() { 'N' } else { c }).collect();
    t.chars().take(60).collect()
}

pub fn normalise_diag(d: &Diag, world: &World) -> NF {
    let mut labels: Vec<String> = d.labels.iter().map(|l| strip_positional_names(l)).collect();
    labels.sort();
    NF {
        code: d.code.clone().unwrap_or_default(),
        severity: d.severity.clone(),
        message: strip_positional_names(&d.message),
        labels,
        // the source lines the snippet shows (every label's lines, in whatever order the
        // labels come); the line under the header location if the snippet shows none
        loc_texts: if d.src_lines.is_empty() {
            d.locs.iter().map(|l| line_text(world, &l.path, l.line as usize)).collect()
        } else {
            let mut v: Vec<String> = d.src_lines.iter().map(|t| t.trim().to_string()).collect();
            v.sort();
            v
        },
        first: d.locs.first().map(|l| (rel_path(&l.path), l.line as usize)),
    }
}

/// As `multiset`, but generated names (`T_<line>_<offset>`) are kept as displayed: for
/// comparisons of two runs over the same text.
pub fn multiset_exact(out: &Stdout, world: &World) -> Vec<NF> {
    let mut v: Vec<NF> = out
        .diags
        .iter()
        .map(|d| {
            let mut n = normalise_diag(d, world);
            n.message = d.message.clone();
            n.labels = d.labels.clone();
            n.labels.sort();
            n.first = None;
            n
        })
        .collect();
    v.sort();
    v
}

/// Sorted multiset of normalised findings (positions dropped).
pub fn multiset(out: &Stdout, world: &World) -> Vec<NF> {
    let mut v: Vec<NF> = out
        .diags
        .iter()
        .map(|d| {
            let mut n = normalise_diag(d, world);
            n.first = None;
            n
        })
        .collect();
    v.sort();
    v
}

pub fn with_positions(out: &Stdout, world: &World) -> Vec<NF> {
    out.diags.iter().map(|d| normalise_diag(d, world)).collect()
}

pub fn describe(n: &NF) -> String {
    format!("{}[{}]: {} {:?} @ {:?}", n.severity, n.code, n.message, n.labels, n.loc_texts)
}

/// First element in which two sorted multisets differ (for messages and signatures).
pub fn first_difference(a: &[NF], b: &[NF]) -> Option<(Option<NF>, Option<NF>)> {
    let mut i = 0;
    let mut j = 0;
    while i < a.len() && j < b.len() {
        if a[i] == b[j] {
            i += 1;
            j += 1;
        } else if a[i] < b[j] {
            return Some((Some(a[i].clone()), None));
        } else {
            return Some((None, Some(b[j].clone())));
        }
    }
    if i < a.len() {
        return Some((Some(a[i].clone()), None));
    }
    if j < b.len() {
        return Some((None, Some(b[j].clone())));
    }
    None
}
