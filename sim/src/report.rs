//! Violations, replay files, known findings and evidence files.

use serde::{Deserialize, Serialize};
use serde_json::{json, Value};
use std::collections::BTreeMap;
use std::fs;
use std::path::{Path, PathBuf};

pub const VERIF_DIR: &str = "/verif";

#[derive(Clone, Debug, Serialize, Deserialize)]
pub struct Violation {
    pub property: String,
    /// Structural signature: class + call site / panic site / finding id + stage.
    pub signature: String,
    pub detail: String,
    /// Everything needed to re-run: depends on the check (`kind` selects the replayer).
    pub replay: Value,
}

#[derive(Clone, Debug, Serialize, Deserialize)]
pub struct KnownFinding {
    pub property: String,
    /// A violation whose signature starts with this string is this finding.
    pub signature: String,
    /// open | fixed
    pub status: String,
    pub what: String,
    #[serde(default)]
    pub commit: Option<String>,
}

#[derive(Clone, Debug, Default, Serialize, Deserialize)]
pub struct KnownFindings {
    pub findings: Vec<KnownFinding>,
}

impl KnownFindings {
    pub fn load() -> KnownFindings {
        let p = Path::new(VERIF_DIR).join("known_findings.json");
        match fs::read_to_string(&p) {
            Ok(s) => serde_json::from_str(&s).unwrap_or_else(|e| {
                eprintln!("HARNESS-ERROR: known_findings.json does not parse: {e}");
                std::process::exit(2);
            }),
            Err(_) => KnownFindings::default(),
        }
    }
    /// Only `open` entries suppress; a `fixed` entry suppresses nothing.
    pub fn matches(&self, v: &Violation) -> Option<&KnownFinding> {
        self.findings
            .iter()
            .find(|k| k.status == "open" && k.property == v.property && v.signature.starts_with(&k.signature))
    }
}

pub fn sig_hash(s: &str) -> String {
    format!("{:016x}", crate::rng::hash_str(s))
}

pub fn write_replay(v: &Violation) -> PathBuf {
    let dir = Path::new(VERIF_DIR).join("replays").join(&v.property);
    let _ = fs::create_dir_all(&dir);
    let p = dir.join(format!("{}.json", sig_hash(&v.signature)));
    let body = serde_json::to_string_pretty(v).unwrap_or_default();
    let _ = fs::write(&p, body);
    p
}

pub struct Evidence {
    pub property: String,
    pub tier: String,
    pub seed: u64,
    pub level: String,
    pub coverage: BTreeMap<String, Value>,
    pub assumptions: Vec<String>,
    pub wall_s: f64,
    pub violations: usize,
}

impl Evidence {
    pub fn write(&self) {
        let dir = Path::new(VERIF_DIR).join("evidence");
        let _ = fs::create_dir_all(&dir);
        let mut cov = serde_json::Map::new();
        for (k, v) in &self.coverage {
            cov.insert(k.clone(), v.clone());
        }
        let v = json!({
            "property_id": self.property,
            "tier": self.tier,
            "seed": self.seed,
            "level": self.level,
            "coverage": Value::Object(cov),
            "assumptions": self.assumptions,
            "wall_s": self.wall_s,
            "violations": self.violations,
        });
        let p = dir.join(format!("{}.json", self.property));
        let tmp = dir.join(format!("{}.json.tmp", self.property));
        let _ = fs::write(&tmp, serde_json::to_string_pretty(&v).unwrap_or_default());
        let _ = fs::rename(&tmp, &p);
    }
}

/// Stored counter-example of a listed finding: `known_replays/<hash of signature>.json`.
pub fn known_replay_path(signature: &str) -> PathBuf {
    Path::new(VERIF_DIR).join("known_replays").join(format!("{}.json", sig_hash(signature)))
}

/// Final verdict of a check: prints KNOWN-FINDING / VIOLATION lines, returns the exit code.
/// `reproduce` re-runs the stored counter-example of a listed finding that the batch did
/// not happen to reach and returns the signature it shows now, so that every listed finding
/// that is still present gets its KNOWN-FINDING line on every run.
pub fn conclude_with(property: &str, violations: &[Violation], reproduce: Option<&dyn Fn(&Value) -> Option<String>>) -> i32 {
    let known = KnownFindings::load();
    let mut new = 0;
    let mut printed_known: Vec<String> = Vec::new();
    if std::env::var("VERIF_DUMP_KNOWN").is_ok() {
        // development aid: keep one counter-example per listed finding
        for v in violations {
            if let Some(k) = known.matches(v) {
                let p = known_replay_path(&k.signature);
                if !p.exists() {
                    let _ = fs::create_dir_all(p.parent().unwrap());
                    let _ = fs::write(&p, serde_json::to_string_pretty(v).unwrap_or_default());
                }
            }
        }
    }
    if let Some(reproduce) = reproduce {
        for k in known.findings.iter().filter(|k| k.status == "open" && k.property == property) {
            if violations.iter().any(|v| v.signature.starts_with(&k.signature)) {
                continue;
            }
            let p = known_replay_path(&k.signature);
            let Ok(text) = fs::read_to_string(&p) else { continue };
            let Ok(v) = serde_json::from_str::<Violation>(&text) else { continue };
            if let Some(sig) = reproduce(&v.replay) {
                if sig.starts_with(&k.signature) {
                    println!("KNOWN-FINDING: property={} {} [{}]", property, k.what, k.signature);
                    printed_known.push(k.signature.clone());
                }
            }
        }
    }
    let mut printed_new: Vec<String> = Vec::new();
    for v in violations {
        if let Some(k) = known.matches(v) {
            if !printed_known.contains(&k.signature) {
                println!("KNOWN-FINDING: property={} {} [{}]", property, k.what, k.signature);
                printed_known.push(k.signature.clone());
            }
        } else {
            if printed_new.contains(&v.signature) {
                continue;
            }
            printed_new.push(v.signature.clone());
            let p = write_replay(v);
            println!("violation detail: {} :: {}", v.signature, v.detail.lines().next().unwrap_or(""));
            println!("VIOLATION property={} replay={}", property, p.display());
            new += 1;
        }
    }
    if new > 0 {
        1
    } else {
        0
    }
}

pub fn conclude(property: &str, violations: &[Violation]) -> i32 {
    conclude_with(property, violations, None)
}

/// Reach probes: "this rare condition was hit" counters, with the ones stuck at zero listed
/// (a probe at zero means the workload or the fault mix must change).
pub fn add_probes(cov: &mut BTreeMap<String, Value>, probes: &[(&str, usize)]) {
    let map: BTreeMap<String, usize> = probes.iter().map(|(k, v)| (k.to_string(), *v)).collect();
    let zero: Vec<String> = probes.iter().filter(|(_, v)| *v == 0).map(|(k, _)| k.to_string()).collect();
    if !zero.is_empty() {
        println!("warning: reach probes stuck at zero: {zero:?}");
    }
    cov.insert("reach_probes".into(), json!(map));
    cov.insert("reach_probes_at_zero".into(), json!(zero));
}
