//! Determinism self-test: one seed is one exactly repeatable execution.
//! `sim selftest-digest <n>` prints one digest line per simulated run (tier P
//! cases with every fault kind, tier L conversions and cut schedules). The
//! `check` script runs it in separate processes at several worker counts and
//! diffs the outputs; inside one process every tier-P case is also run twice
//! on different workers and compared byte for byte.

use crate::driver::{harness_error, Env};
use crate::libtier::{run_in_sim, SimPlan, SimResult};
use crate::procrun::{Exit, Runner};
use crate::props::{c01, c14, c20};
use crate::rng::{hash_str, Rng};
use program_structure::cfg::IntoCfg;
use program_structure::constants::Curve;

fn outcome_digest(o: &crate::procrun::Outcome) -> String {
    let ev: String = o.events.iter().map(|e| format!("{}|{}|{}\n", e.call, e.path, e.result)).collect();
    // stderr carries the thread id of a panicking process; its structural part is the crash signature
    let crash = crate::common::crash_signature(o).unwrap_or_default();
    format!(
        "{:?}:{:016x}:{:016x}:{:016x}:{:016x}",
        o.exit,
        hash_str(&o.stdout),
        hash_str(&crash),
        hash_str(o.sarif.as_deref().unwrap_or("-")),
        hash_str(&ev)
    )
}

pub fn run(env: &Env, n: usize) -> i32 {
    let seed = env.seed;
    // tier P: every case twice (the second time on whatever worker picks it up)
    let first: Vec<(String, bool)> = env.par_map(n, |runner: &Runner, i| {
        let b = c01::build_case(seed, i, false);
        match runner.run(&b.case) {
            Ok(o) => {
                // runs that die on a resource limit are load dependent by nature
                let limit = matches!(o.exit, Exit::Signal(24) | Exit::Signal(9) | Exit::Watchdog);
                (outcome_digest(&o), limit)
            }
            Err(e) => (format!("ERR {e}"), true),
        }
    });
    let second: Vec<(String, bool)> = env.par_map(n, |runner: &Runner, j| {
        let i = n - 1 - j; // another order, hence other workers
        let b = c01::build_case(seed, i, false);
        match runner.run(&b.case) {
            Ok(o) => {
                let limit = matches!(o.exit, Exit::Signal(24) | Exit::Signal(9) | Exit::Watchdog);
                (outcome_digest(&o), limit)
            }
            Err(e) => (format!("ERR {e}"), true),
        }
    });
    let mut bad = 0;
    for i in 0..n {
        let (a, la) = &first[i];
        let (b, lb) = &second[n - 1 - i];
        if *la || *lb {
            println!("P {i} (resource limit, not compared)");
            continue;
        }
        if a != b {
            bad += 1;
            eprintln!("tier P case {i}: {a} vs {b}");
        }
        println!("P {i} {a}");
    }
    // tier L: SSA fingerprints and cut schedules
    let m = n / 2;
    for i in 0..m {
        let src = c14::gen_source(seed, i);
        let mut rk = Rng::new(seed).sub_n("selftest-L", i as u64);
        let key = rk.bytes16();
        let cs = rk.next_u64();
        let mut plan = SimPlan::quiet(key, cs);
        if i % 3 == 0 {
            plan.stall_permille = 300;
        }
        let mut digests = Vec::new();
        for _ in 0..2 {
            let s = src.clone();
            let (out, stats) = run_in_sim(&plan, move || {
                let d = parser::parse_definition(&s)?;
                let mut reports = Vec::new();
                let cfg = d.into_cfg(&Curve::default(), &mut reports).ok()?.into_ssa().ok()?;
                Some(format!("{cfg:?}"))
            });
            let text = match out {
                SimResult::Ok(Some(t)) => t,
                SimResult::Ok(None) => "-".into(),
                SimResult::Panic(p) => format!("panic {p}"),
            };
            digests.push(format!("{:016x}:{}:{}", hash_str(&text), stats.clock_reads, stats.stalls_fired));
        }
        if digests[0] != digests[1] {
            bad += 1;
            eprintln!("tier L case {i}: {} vs {}", digests[0], digests[1]);
        }
        println!("L {i} {}", digests[0]);
    }
    let _ = c20::gen_source(seed, 0);
    if bad > 0 {
        harness_error(&format!("determinism self-test: {bad} same-seed mismatches (the seams leak nondeterminism)"));
    }
    0
}

/// Development aid: run one tier-P case twice and print a unified view of what differs.
pub fn diff_case(env: &Env, i: usize) {
    let b = c01::build_case(env.seed, i, false);
    let r0 = Runner::new(&env.bin, &env.shim, &env.scratch, 0);
    let r1 = Runner::new(&env.bin, &env.shim, &env.scratch, 1);
    let a = r0.run(&b.case).unwrap();
    let c = r1.run(&b.case).unwrap();
    println!("mode {} argv {:?} plan {:?}", b.mode, b.case.argv, b.case.plan);
    for (la, lb) in a.stdout.lines().zip(c.stdout.lines()) {
        if la != lb {
            println!("A: {la}\nB: {lb}");
        }
    }
    println!("stdout lines {} vs {}", a.stdout.lines().count(), c.stdout.lines().count());
    for (ea, eb) in a.events.iter().zip(c.events.iter()) {
        if ea != eb {
            println!("EA: {ea:?}\nEB: {eb:?}");
            break;
        }
    }
    println!("events {} vs {}", a.events.len(), c.events.len());
}
