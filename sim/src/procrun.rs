//! Tier P: run the real `circomspect` binary as a child process under the
//! LD_PRELOAD seam, with a cleared environment, fixed address-space layout and
//! resource limits. One `Runner` per worker thread; each owns a sandbox.

use crate::world::{Case, ROOT_TOKEN};
use std::fs;
use std::os::unix::process::ExitStatusExt;
use std::path::{Path, PathBuf};
use std::process::{Command, Stdio};
use std::sync::atomic::{AtomicI32, AtomicU64, Ordering};
use std::sync::Arc;
use std::time::{SystemTime, UNIX_EPOCH};

pub const EXIT_EVENT_BUDGET: i32 = 97;
pub const WATCHDOG_SECS: u64 = 300;

#[derive(Clone, Debug, PartialEq, Eq)]
pub enum Exit {
    Code(i32),
    Signal(i32),
    Watchdog,
}

#[derive(Clone, Debug, PartialEq, Eq)]
pub struct Event {
    pub call: String,
    pub path: String,
    pub result: String,
}

impl Event {
    pub fn result_num(&self) -> Option<i64> {
        self.result.parse::<i64>().ok()
    }
}

#[derive(Clone, Debug)]
pub struct Outcome {
    pub exit: Exit,
    pub stdout: String,
    pub stderr: String,
    pub events: Vec<Event>,
    /// Contents of the file named by --sarif-file after the run, if any.
    pub sarif: Option<String>,
    pub sarif_path: Option<String>,
}

impl Outcome {
    pub fn clock_reads(&self) -> usize {
        self.events.iter().filter(|e| e.call == "clock").count()
    }
    /// Simulated nanoseconds between the first and last clock read.
    pub fn sim_ns(&self) -> i64 {
        let mut first = None;
        let mut last = None;
        for e in &self.events {
            if e.call == "clock" {
                if let Ok(v) = e.result.split('\t').next().unwrap_or("").parse::<i64>() {
                    if first.is_none() {
                        first = Some(v);
                    }
                    last = Some(v);
                }
            }
        }
        match (first, last) {
            (Some(a), Some(b)) => b - a,
            _ => 0,
        }
    }
    pub fn stalls_fired(&self) -> usize {
        self.events
            .iter()
            .filter(|e| e.call == "clock" && e.result.split('\t').nth(1).map(|s| s != "0").unwrap_or(false))
            .count()
    }
    pub fn budget_exceeded(&self) -> bool {
        self.exit == Exit::Code(EXIT_EVENT_BUDGET)
    }
}

/// Shared table used by the watchdog thread.
pub struct WatchSlot {
    pub pid: AtomicI32,
    pub started: AtomicU64,
}

pub struct Runner {
    pub bin: PathBuf,
    pub shim: PathBuf,
    pub base: PathBuf,
    pub root: PathBuf,
    pub slot: Arc<WatchSlot>,
}

fn now_secs() -> u64 {
    SystemTime::now().duration_since(UNIX_EPOCH).map(|d| d.as_secs()).unwrap_or(0)
}

pub fn spawn_watchdog(slots: Vec<Arc<WatchSlot>>) {
    std::thread::spawn(move || loop {
        std::thread::sleep(std::time::Duration::from_secs(2));
        let now = now_secs();
        for s in &slots {
            let pid = s.pid.load(Ordering::SeqCst);
            let st = s.started.load(Ordering::SeqCst);
            if pid > 0 && st > 0 && now > st + WATCHDOG_SECS {
                unsafe {
                    libc::kill(pid, libc::SIGKILL);
                }
                s.started.store(u64::MAX, Ordering::SeqCst);
            }
        }
    });
}

impl Runner {
    pub fn new(bin: &Path, shim: &Path, scratch: &Path, worker: usize) -> Runner {
        let base = scratch.join(format!("w{worker:02}"));
        let root = base.join("r");
        let _ = fs::create_dir_all(&base);
        Runner {
            bin: bin.to_path_buf(),
            shim: shim.to_path_buf(),
            base,
            root,
            slot: Arc::new(WatchSlot { pid: AtomicI32::new(0), started: AtomicU64::new(0) }),
        }
    }

    pub fn root_str(&self) -> String {
        self.root.to_string_lossy().to_string()
    }

    pub fn normalise(&self, s: &str) -> String {
        // the sandbox root, and its per-worker parent (reachable through `..`)
        s.replace(&self.root_str(), ROOT_TOKEN).replace(&self.base.to_string_lossy().to_string(), "@BASE@")
    }

    /// Materialise the world and run the case once.
    pub fn run(&self, case: &Case) -> Result<Outcome, String> {
        case.world.materialise(&self.root).map_err(|e| format!("materialise: {e}"))?;
        self.run_in_place(case)
    }

    /// Run against the already materialised sandbox (files the previous run
    /// created, e.g. a SARIF file, are removed first by the caller if needed).
    pub fn run_in_place(&self, case: &Case) -> Result<Outcome, String> {
        let root = self.root_str();
        let out_path = self.base.join("stdout");
        let err_path = self.base.join("stderr");
        let log_path = self.base.join("events");
        let plan_path = self.base.join("plan");
        let _ = fs::remove_file(&log_path);
        fs::write(&plan_path, case.plan.to_text(&root, &log_path.to_string_lossy()))
            .map_err(|e| format!("plan: {e}"))?;
        let out_f = fs::File::create(&out_path).map_err(|e| format!("stdout file: {e}"))?;
        let err_f = fs::File::create(&err_path).map_err(|e| format!("stderr file: {e}"))?;

        let argv: Vec<String> = case.argv.iter().map(|a| a.replace(ROOT_TOKEN, &root)).collect();
        let mut sarif_rel: Option<String> = None;
        for (i, a) in argv.iter().enumerate() {
            if (a == "--sarif-file" || a == "-s") && i + 1 < argv.len() {
                sarif_rel = Some(argv[i + 1].clone());
            }
        }
        // posix_spawn of a tiny launcher (limits + address-space policy, then exec):
        // no fork of the harness process per run.
        let launcher = self.shim.with_file_name("simlaunch");
        let mut cmd = Command::new(&launcher);
        cmd.arg(if case.plan.aslr { "1" } else { "0" })
            .arg("60")
            .arg(format!("{}", 1u64 << 30))
            .arg(&self.bin)
            .args(&argv)
            .current_dir(&self.root)
            .env_clear()
            .env("LD_PRELOAD", &self.shim)
            .env("SIM_PLAN", &plan_path)
            .stdin(Stdio::null())
            .stdout(Stdio::from(out_f))
            .stderr(Stdio::from(err_f));
        for (k, v) in &case.plan.env {
            if k != "LD_PRELOAD" && k != "SIM_PLAN" {
                cmd.env(k, v);
            }
        }
        let mut child = cmd.spawn().map_err(|e| format!("spawn: {e}"))?;
        self.slot.started.store(now_secs(), Ordering::SeqCst);
        self.slot.pid.store(child.id() as i32, Ordering::SeqCst);
        let status = child.wait().map_err(|e| format!("wait: {e}"))?;
        let killed_by_watchdog = self.slot.started.load(Ordering::SeqCst) == u64::MAX;
        self.slot.pid.store(0, Ordering::SeqCst);
        self.slot.started.store(0, Ordering::SeqCst);

        let exit = if killed_by_watchdog {
            Exit::Watchdog
        } else if let Some(c) = status.code() {
            Exit::Code(c)
        } else if let Some(s) = status.signal() {
            Exit::Signal(s)
        } else {
            Exit::Code(-1)
        };
        let stdout = String::from_utf8_lossy(&fs::read(&out_path).unwrap_or_default()).to_string();
        let stderr = String::from_utf8_lossy(&fs::read(&err_path).unwrap_or_default()).to_string();
        let log = String::from_utf8_lossy(&fs::read(&log_path).unwrap_or_default()).to_string();
        let mut events = Vec::new();
        for line in self.normalise(&log).lines() {
            let mut it = line.splitn(3, '\t');
            let call = it.next().unwrap_or("").to_string();
            let path = it.next().unwrap_or("").to_string();
            let result = it.next().unwrap_or("").to_string();
            if call == "clock" {
                // clock \t idx \t now \t stalled  -> path = idx, result = "now\tstalled"
                events.push(Event { call, path, result });
            } else {
                events.push(Event { call, path, result });
            }
        }
        let (sarif, sarif_path) = match sarif_rel {
            Some(rel) => {
                let p = if rel.starts_with('/') { PathBuf::from(&rel) } else { self.root.join(&rel) };
                let content = fs::read(&p).ok().map(|b| self.normalise(&String::from_utf8_lossy(&b)));
                (content, Some(self.normalise(&rel)))
            }
            None => (None, None),
        };
        Ok(Outcome {
            exit,
            stdout: self.normalise(&stdout),
            stderr: self.normalise(&stderr),
            events,
            sarif,
            sarif_path,
        })
    }
}

/// A scratch directory with a fixed-length name (so that path lengths, and
/// with them everything the tool prints, do not depend on the pid).
pub fn make_scratch() -> PathBuf {
    let pid = std::process::id() as u64;
    let t = SystemTime::now().duration_since(UNIX_EPOCH).map(|d| d.as_nanos() as u64).unwrap_or(0);
    let tag = crate::rng::mix64(pid ^ t) & 0xffff_ffff;
    let base = if Path::new("/dev/shm").is_dir() { PathBuf::from("/dev/shm") } else { std::env::temp_dir() };
    let dir = base.join(format!("cssim-{tag:08x}"));
    let _ = fs::create_dir_all(&dir);
    dir
}
