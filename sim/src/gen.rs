//! Grammar-directed generator of Circom 2.0-2.1.4 projects (the workload).
//!
//! Programs are built as a small AST, printed to a token list and rendered to
//! text; a project is a set of files with includes, definitions and an
//! optional main component. Generated projects are well formed by default;
//! ill-formedness is introduced only deliberately by the checks.

use crate::rng::Rng;
use std::collections::BTreeMap;

// ---------------------------------------------------------------------------
// AST
// ---------------------------------------------------------------------------

#[derive(Clone, Debug)]
pub enum Expr {
    Num(String),
    Var(String),
    Access(String, Vec<Acc>),
    Infix(Box<Expr>, &'static str, Box<Expr>),
    Prefix(&'static str, Box<Expr>),
    Ternary(Box<Expr>, Box<Expr>, Box<Expr>),
    Call(String, Vec<Expr>),
    Array(Vec<Expr>),
    Tuple(Vec<Expr>),
    Anon { template: String, params: Vec<Expr>, inputs: Vec<(Option<(String, &'static str)>, Expr)>, parallel: bool },
    Underscore,
    Paren(Box<Expr>),
}

#[derive(Clone, Debug)]
pub enum Acc {
    Idx(Expr),
    Port(String),
}

#[derive(Clone, Debug, PartialEq, Eq)]
pub enum DeclKw {
    Var,
    Signal { io: Option<&'static str>, tags: Vec<String> },
    Component,
}

#[derive(Clone, Debug)]
pub struct DeclItem {
    pub name: String,
    pub dims: Vec<Expr>,
    pub init: Option<Expr>,
}

#[derive(Clone, Debug)]
pub enum LogArg {
    Str(String),
    E(Expr),
}

#[derive(Clone, Debug)]
pub enum Stmt {
    Decl { kw: DeclKw, items: Vec<DeclItem>, init_op: &'static str },
    /// `var (a, b) = (1, 2)` style declaration
    TupleDecl { kw: DeclKw, names: Vec<String>, init_op: &'static str, init: Option<Expr> },
    Assign { lhs: Expr, op: &'static str, rhs: Expr, reversed: bool },
    Compound { lhs: Expr, op: &'static str, rhs: Expr },
    IncDec { lhs: Expr, op: &'static str },
    ConstraintEq(Expr, Expr),
    If { cond: Expr, then: Box<Stmt>, els: Option<Box<Stmt>> },
    While { cond: Expr, body: Box<Stmt> },
    For { init: Box<Stmt>, cond: Expr, step: Box<Stmt>, body: Box<Stmt> },
    Block(Vec<Stmt>),
    Return(Expr),
    Assert(Expr),
    Log(Vec<LogArg>),
    ExprStmt(Expr),
    /// Verbatim tokens (planted text).
    Raw(Vec<String>),
}

#[derive(Clone, Debug, PartialEq, Eq)]
pub enum DefKind {
    Template { custom: bool, parallel: bool },
    Function,
}

#[derive(Clone, Debug)]
pub struct Port {
    pub name: String,
    /// literal dimensions (small)
    pub dims: Vec<usize>,
}

#[derive(Clone, Debug)]
pub struct Def {
    pub kind: DefKind,
    pub name: String,
    pub params: Vec<String>,
    pub body: Vec<Stmt>,
    pub inputs: Vec<Port>,
    pub outputs: Vec<Port>,
    /// names of templates / functions this definition references
    pub refs: Vec<String>,
}

impl Def {
    pub fn is_template(&self) -> bool {
        matches!(self.kind, DefKind::Template { .. })
    }
    pub fn kind_str(&self) -> &'static str {
        if self.is_template() { "template" } else { "function" }
    }
}

#[derive(Clone, Debug)]
pub struct MainDecl {
    pub public: Vec<String>,
    pub template: String,
    pub args: Vec<Expr>,
}

#[derive(Clone, Debug, Default)]
pub struct FileUnit {
    pub path: String,
    pub pragma: Option<String>,
    pub custom_pragma: bool,
    pub includes: Vec<String>,
    pub defs: Vec<Def>,
    pub main: Option<MainDecl>,
}

// ---------------------------------------------------------------------------
// Printing
// ---------------------------------------------------------------------------

fn tier(op: &str) -> u8 {
    match op {
        "||" => 12,
        "&&" => 11,
        "==" | "!=" | "<" | ">" | "<=" | ">=" => 10,
        "|" => 9,
        "^" => 8,
        "&" => 7,
        "<<" | ">>" => 6,
        "+" | "-" => 5,
        "*" | "/" | "\\" | "%" => 4,
        "**" => 3,
        _ => 0,
    }
}

fn expr_tier(e: &Expr) -> u8 {
    match e {
        Expr::Infix(_, op, _) => tier(op),
        Expr::Prefix(..) => 2,
        Expr::Ternary(..) => 13,
        Expr::Anon { parallel: true, .. } => 14,
        _ => 1,
    }
}

pub fn expr_tokens(e: &Expr, out: &mut Vec<String>) {
    match e {
        Expr::Num(n) => out.push(n.clone()),
        Expr::Var(v) => out.push(v.clone()),
        Expr::Underscore => out.push("_".into()),
        Expr::Access(name, accs) => {
            out.push(name.clone());
            for a in accs {
                match a {
                    Acc::Idx(i) => {
                        out.push("[".into());
                        expr_tokens(i, out);
                        out.push("]".into());
                    }
                    Acc::Port(p) => {
                        out.push(".".into());
                        out.push(p.clone());
                    }
                }
            }
        }
        Expr::Infix(l, op, r) => {
            let t = tier(op);
            sub_tokens(l, expr_tier(l) > t, out);
            out.push(op.to_string());
            sub_tokens(r, expr_tier(r) >= t, out);
        }
        Expr::Prefix(op, r) => {
            out.push(op.to_string());
            sub_tokens(r, expr_tier(r) > 1, out);
        }
        Expr::Ternary(c, a, b) => {
            sub_tokens(c, expr_tier(c) > 12, out);
            out.push("?".into());
            sub_tokens(a, expr_tier(a) > 12, out);
            out.push(":".into());
            sub_tokens(b, expr_tier(b) > 12, out);
        }
        Expr::Call(name, args) => {
            out.push(name.clone());
            out.push("(".into());
            list_tokens(args, out);
            out.push(")".into());
        }
        Expr::Array(vals) => {
            out.push("[".into());
            list_tokens(vals, out);
            out.push("]".into());
        }
        Expr::Tuple(vals) => {
            out.push("(".into());
            list_tokens(vals, out);
            out.push(")".into());
        }
        Expr::Anon { template, params, inputs, parallel } => {
            if *parallel {
                out.push("parallel".into());
            }
            out.push(template.clone());
            out.push("(".into());
            list_tokens(params, out);
            out.push(")".into());
            out.push("(".into());
            for (i, (name, e)) in inputs.iter().enumerate() {
                if i > 0 {
                    out.push(",".into());
                }
                if let Some((n, op)) = name {
                    out.push(n.clone());
                    out.push(op.to_string());
                }
                expr_tokens(e, out);
            }
            out.push(")".into());
        }
        Expr::Paren(e) => {
            out.push("(".into());
            expr_tokens(e, out);
            out.push(")".into());
        }
    }
}

fn sub_tokens(e: &Expr, paren: bool, out: &mut Vec<String>) {
    if paren {
        out.push("(".into());
        expr_tokens(e, out);
        out.push(")".into());
    } else {
        expr_tokens(e, out);
    }
}

fn list_tokens(es: &[Expr], out: &mut Vec<String>) {
    for (i, e) in es.iter().enumerate() {
        if i > 0 {
            out.push(",".into());
        }
        // a top-level ternary inside a list is fine (ParseExpression)
        expr_tokens(e, out);
    }
}

fn kw_tokens(kw: &DeclKw, out: &mut Vec<String>) {
    match kw {
        DeclKw::Var => out.push("var".into()),
        DeclKw::Component => out.push("component".into()),
        DeclKw::Signal { io, tags } => {
            out.push("signal".into());
            if let Some(io) = io {
                out.push(io.to_string());
            }
            if !tags.is_empty() {
                out.push("{".into());
                for (i, t) in tags.iter().enumerate() {
                    if i > 0 {
                        out.push(",".into());
                    }
                    out.push(t.clone());
                }
                out.push("}".into());
            }
        }
    }
}

/// Tokens of a statement. `semi`: emit the trailing `;` for simple statements.
pub fn stmt_tokens(s: &Stmt, out: &mut Vec<String>) {
    match s {
        Stmt::Decl { kw, items, init_op } => {
            kw_tokens(kw, out);
            for (i, it) in items.iter().enumerate() {
                if i > 0 {
                    out.push(",".into());
                }
                out.push(it.name.clone());
                for d in &it.dims {
                    out.push("[".into());
                    expr_tokens(d, out);
                    out.push("]".into());
                }
                if let Some(init) = &it.init {
                    out.push(init_op.to_string());
                    expr_tokens(init, out);
                }
            }
            out.push(";".into());
        }
        Stmt::TupleDecl { kw, names, init_op, init } => {
            kw_tokens(kw, out);
            out.push("(".into());
            for (i, n) in names.iter().enumerate() {
                if i > 0 {
                    out.push(",".into());
                }
                out.push(n.clone());
            }
            out.push(")".into());
            if let Some(init) = init {
                out.push(init_op.to_string());
                expr_tokens(init, out);
            }
            out.push(";".into());
        }
        Stmt::Assign { lhs, op, rhs, reversed } => {
            if *reversed {
                expr_tokens(rhs, out);
                out.push(if *op == "<==" { "==>".into() } else { "-->".into() });
                expr_tokens(lhs, out);
            } else {
                expr_tokens(lhs, out);
                out.push(op.to_string());
                expr_tokens(rhs, out);
            }
            out.push(";".into());
        }
        Stmt::Compound { lhs, op, rhs } => {
            expr_tokens(lhs, out);
            out.push(op.to_string());
            expr_tokens(rhs, out);
            out.push(";".into());
        }
        Stmt::IncDec { lhs, op } => {
            expr_tokens(lhs, out);
            out.push(op.to_string());
            out.push(";".into());
        }
        Stmt::ConstraintEq(l, r) => {
            expr_tokens(l, out);
            out.push("===".into());
            expr_tokens(r, out);
            out.push(";".into());
        }
        Stmt::If { cond, then, els } => {
            out.push("if".into());
            out.push("(".into());
            expr_tokens(cond, out);
            out.push(")".into());
            stmt_tokens(then, out);
            if let Some(e) = els {
                out.push("else".into());
                stmt_tokens(e, out);
            }
        }
        Stmt::While { cond, body } => {
            out.push("while".into());
            out.push("(".into());
            expr_tokens(cond, out);
            out.push(")".into());
            stmt_tokens(body, out);
        }
        Stmt::For { init, cond, step, body } => {
            out.push("for".into());
            out.push("(".into());
            stmt_tokens(init, out); // includes ';'
            expr_tokens(cond, out);
            out.push(";".into());
            let mut st = Vec::new();
            stmt_tokens(step, &mut st);
            if st.last().map(|s| s == ";").unwrap_or(false) {
                st.pop();
            }
            out.extend(st);
            out.push(")".into());
            stmt_tokens(body, out);
        }
        Stmt::Block(stmts) => {
            out.push("{".into());
            for s in stmts {
                stmt_tokens(s, out);
            }
            out.push("}".into());
        }
        Stmt::Return(e) => {
            out.push("return".into());
            expr_tokens(e, out);
            out.push(";".into());
        }
        Stmt::Assert(e) => {
            out.push("assert".into());
            out.push("(".into());
            expr_tokens(e, out);
            out.push(")".into());
            out.push(";".into());
        }
        Stmt::Log(args) => {
            out.push("log".into());
            out.push("(".into());
            for (i, a) in args.iter().enumerate() {
                if i > 0 {
                    out.push(",".into());
                }
                match a {
                    LogArg::Str(s) => out.push(format!("\"{s}\"")),
                    LogArg::E(e) => expr_tokens(e, out),
                }
            }
            out.push(")".into());
            out.push(";".into());
        }
        Stmt::ExprStmt(e) => {
            expr_tokens(e, out);
            out.push(";".into());
        }
        Stmt::Raw(toks) => out.extend(toks.iter().cloned()),
    }
}

pub fn def_tokens(d: &Def, out: &mut Vec<String>) {
    match &d.kind {
        DefKind::Function => out.push("function".into()),
        DefKind::Template { custom, parallel } => {
            out.push("template".into());
            if *custom {
                out.push("custom".into());
            }
            if *parallel {
                out.push("parallel".into());
            }
        }
    }
    out.push(d.name.clone());
    out.push("(".into());
    for (i, p) in d.params.iter().enumerate() {
        if i > 0 {
            out.push(",".into());
        }
        out.push(p.clone());
    }
    out.push(")".into());
    out.push("{".into());
    for s in &d.body {
        stmt_tokens(s, out);
    }
    out.push("}".into());
}

pub fn file_tokens(f: &FileUnit, out: &mut Vec<String>) {
    if let Some(v) = &f.pragma {
        out.push("pragma circom".into());
        out.push(v.clone());
        out.push(";".into());
    }
    if f.custom_pragma {
        out.push("pragma".into());
        out.push("custom_templates".into());
        out.push(";".into());
    }
    for inc in &f.includes {
        out.push("include".into());
        out.push(format!("\"{inc}\""));
        out.push(";".into());
    }
    for d in &f.defs {
        def_tokens(d, out);
    }
    if let Some(m) = &f.main {
        out.push("component".into());
        out.push("main".into());
        if !m.public.is_empty() {
            out.push("{".into());
            out.push("public".into());
            out.push("[".into());
            for (i, p) in m.public.iter().enumerate() {
                if i > 0 {
                    out.push(",".into());
                }
                out.push(p.clone());
            }
            out.push("]".into());
            out.push("}".into());
        }
        out.push("=".into());
        out.push(m.template.clone());
        out.push("(".into());
        list_tokens(&m.args, out);
        out.push(")".into());
        out.push(";".into());
    }
}

/// How tokens are laid out as text.
#[derive(Clone, Debug)]
pub struct Style {
    /// probability (per 1000) of a comment between two tokens
    pub comment_permille: u32,
    pub crlf: bool,
    pub indent: bool,
    /// allow comment shapes the stripper is known to mishandle (C01 only)
    pub hostile_comments: bool,
    pub non_ascii_comments: bool,
    /// tabs for indentation and, now and then, between tokens
    pub tabs: bool,
    /// the last line has no line terminator
    pub no_final_newline: bool,
    /// the file starts with a byte-order mark
    pub bom: bool,
}

impl Style {
    pub fn plain() -> Style {
        Style { comment_permille: 0, crlf: false, indent: true, hostile_comments: false, non_ascii_comments: false, tabs: false, no_final_newline: false, bom: false }
    }
    pub fn random(rng: &mut Rng) -> Style {
        Style {
            comment_permille: *rng.pick(&[0, 0, 10, 40, 150]),
            crlf: rng.chance(1, 8),
            indent: rng.chance(7, 8),
            hostile_comments: false,
            non_ascii_comments: rng.chance(1, 4),
            tabs: rng.chance(1, 6),
            no_final_newline: rng.chance(1, 6),
            // (a file with a byte-order mark does not parse at all: only C01 and C19 ask for it)
            bom: false,
        }
    }
}

fn gen_comment(rng: &mut Rng, st: &Style) -> String {
    let words = ["note", "x <-- y", "TODO", "signal input a;", "1 / 0", "}", "{", "\"", "incl"];
    let mut body = String::new();
    for _ in 0..rng.usize(3) {
        let w: &str = words[rng.usize(words.len())];
        body.push_str(w);
        body.push(' ');
    }
    let mut starred = "";
    if st.non_ascii_comments && rng.chance(1, 2) {
        body.push_str(*rng.pick(&["é∑π ", "这是一个注释 ", "半径 r×π→ ", "日本語のコメント ", "– ’ € "]));
        // a `*` directly in front of a multi-byte character, inside a block comment
        starred = *rng.pick(&["", "", "r*π ", "*→ item ", "2*é*∑ "]);
    }
    let safe_block = |b: &str| -> String {
        // shapes the stripper handles: no `*` directly before the closing `*/`
        // other than the closing one, and no `*` followed by a char that matters.
        let b = b.replace('*', "+");
        format!("/* {b}{starred}*/")
    };
    if st.hostile_comments {
        match rng.usize(8) {
            0 => "/**/".to_string(),
            1 => "/***/".to_string(),
            2 => format!("/* {body}**/"),
            3 => format!("//* {body}\n"),
            4 => "/*/ x */".to_string(),
            5 => format!("/** {body} */"),
            6 => format!("// {body}\n"),
            _ => safe_block(&body),
        }
    } else {
        match rng.usize(3) {
            0 => format!("// {}\n", body.replace('\n', " ")),
            _ => safe_block(&body),
        }
    }
}

pub fn render(tokens: &[String], style: &Style, rng: &mut Rng) -> String {
    let nl = if style.crlf { "\r\n" } else { "\n" };
    let mut s = String::new();
    let mut depth: i32 = 0;
    let mut paren: i32 = 0;
    let mut at_line_start = true;
    for (i, t) in tokens.iter().enumerate() {
        if t == "}" {
            depth -= 1;
        }
        if at_line_start {
            if style.indent {
                for _ in 0..depth.max(0) {
                    s.push_str(if style.tabs { "\t" } else { "    " });
                }
            }
            at_line_start = false;
        } else if style.tabs && i % 7 == 3 {
            s.push('\t');
        } else {
            s.push(' ');
        }
        s.push_str(t);
        if t == "(" {
            paren += 1;
        } else if t == ")" {
            paren -= 1;
        }
        if t == "{" {
            depth += 1;
        }
        if style.comment_permille > 0 && rng.below(1000) < style.comment_permille as u64 {
            s.push(' ');
            let c = gen_comment(rng, style);
            let ends_nl = c.ends_with('\n');
            s.push_str(c.trim_end_matches('\n'));
            if ends_nl {
                s.push_str(nl);
                at_line_start = true;
                continue;
            }
        }
        let next = tokens.get(i + 1).map(|x| x.as_str()).unwrap_or("");
        let brace_in_expr = paren > 0; // `{` of tags / public list inside a declaration is not a block
        if (t == ";" && paren == 0) || ((t == "{" || t == "}") && !brace_in_expr && next != "else" && !is_tag_brace(tokens, i)) {
            s.push_str(nl);
            at_line_start = true;
        }
    }
    if !s.ends_with('\n') {
        s.push_str(nl);
    }
    s
}

/// File-level layout: byte-order mark in front, last line without terminator.
pub fn finish_file(mut text: String, style: &Style) -> String {
    if style.no_final_newline {
        while text.ends_with('\n') || text.ends_with('\r') {
            text.pop();
        }
    }
    if style.bom {
        text.insert(0, '\u{feff}');
    }
    text
}

fn is_tag_brace(tokens: &[String], i: usize) -> bool {
    // `signal input {tag} x`, `component main {public [a]} = ...`
    let t = tokens[i].as_str();
    if t == "{" {
        let prev = if i > 0 { tokens[i - 1].as_str() } else { "" };
        return matches!(prev, "signal" | "input" | "output" | "main");
    }
    if t == "}" {
        // closing of a tag list: look back for the matching "{" within a few tokens
        let mut j = i;
        let mut n = 0;
        while j > 0 && n < 12 {
            j -= 1;
            n += 1;
            if tokens[j] == "{" {
                return is_tag_brace(tokens, j);
            }
            if tokens[j] == ";" || tokens[j] == "}" {
                return false;
            }
        }
    }
    false
}

pub fn render_file(f: &FileUnit, style: &Style, rng: &mut Rng) -> String {
    let mut toks = Vec::new();
    file_tokens(f, &mut toks);
    finish_file(render(&toks, style, rng), style)
}

pub fn render_def(d: &Def) -> String {
    let mut toks = Vec::new();
    def_tokens(d, &mut toks);
    let mut r = Rng::new(0);
    render(&toks, &Style::plain(), &mut r)
}

// ---------------------------------------------------------------------------
// Generation
// ---------------------------------------------------------------------------

/// Swarm configuration: each run draws its own feature subset and size knobs.
#[derive(Clone, Debug)]
pub struct Knobs {
    pub max_stmts: usize,
    pub max_depth: usize,
    pub expr_depth: usize,
    pub loops: bool,
    pub ifs: bool,
    pub arrays: bool,
    pub components: bool,
    pub anon: bool,
    pub tuples: bool,
    pub calls: bool,
    pub ternary: bool,
    pub compound: bool,
    pub bitops: bool,
    pub divops: bool,
    pub shifts: bool,
    pub pow: bool,
    pub logs: bool,
    pub asserts: bool,
    pub tags: bool,
    pub hex: bool,
    pub big_literals: bool,
    pub shadowing: bool,
    pub bare_bodies: bool,
    pub unsafe_assign: bool, // `<--`
    pub reversed_assign: bool,
    pub multi_decl: bool,
    pub custom_templates: bool,
    /// array dimensions that read a variable in scope (`var n[3 + 0 * n]`), by preference the
    /// very name the declaration shadows; off unless a check switches it on (no draw when off)
    pub dim_exprs: bool,
    pub circomlib_names: bool,
    pub early_return: bool,
    /// rarely give a definition two parameters with one name (a CFG-stage report)
    pub dup_params: bool,
    /// probability (per 1000) that a local array is initialised where it is declared
    pub array_init_permille: u32,
    /// probability (per 1000) that an atom is replaced by a grammatical but odd expression
    /// (tuple, `_`, anonymous component, nested array, unknown call, port access): C01 only
    pub odd_permille: u32,
    /// identifiers that stress name handling: `$` in names, one identifier used for a
    /// variable in one scope and a signal in another (C14, C01 only)
    pub odd_names: bool,
    /// rare but legal shapes: component arrays, multi-dimensional arrays, `_` in tuple
    /// assignments, `<--` named inputs, long identifiers, non-ASCII log strings
    pub rare_shapes: bool,
    /// a function may take the name of a template of the project (two name spaces in the
    /// tool's maps, one in the language)
    pub shared_names: bool,
    /// file names with blanks, `#`, `%`, `+`, quotes-free punctuation and non-ASCII letters
    pub odd_file_names: bool,
    /// literals are drawn modulo this prime family: 0 = bn254
    pub prime: usize,
}

impl Knobs {
    pub fn random(rng: &mut Rng) -> Knobs {
        let mut b = |n: u64, d: u64| rng.chance(n, d);
        Knobs {
            loops: b(3, 4),
            ifs: b(3, 4),
            arrays: b(1, 2),
            components: b(2, 3),
            anon: b(1, 4),
            tuples: b(1, 4),
            calls: b(2, 3),
            ternary: b(1, 2),
            compound: b(1, 2),
            bitops: b(1, 2),
            divops: b(1, 2),
            shifts: b(1, 2),
            pow: b(1, 3),
            logs: b(1, 3),
            asserts: b(1, 3),
            tags: b(1, 5),
            hex: b(1, 4),
            big_literals: b(1, 4),
            shadowing: b(1, 2),
            bare_bodies: b(1, 3),
            unsafe_assign: b(2, 3),
            reversed_assign: b(1, 4),
            multi_decl: b(1, 3),
            custom_templates: b(1, 8),
            dim_exprs: false,
            circomlib_names: b(1, 4),
            early_return: b(1, 4),
            dup_params: b(1, 6),
            array_init_permille: 900,
            odd_permille: 0,
            odd_names: false,
            rare_shapes: b(1, 3),
            shared_names: b(1, 10),
            odd_file_names: b(1, 8),
            max_stmts: 2 + rng.usize(14),
            max_depth: rng.usize(4),
            expr_depth: 1 + rng.usize(3),
            prime: 0,
        }
    }
    pub fn all_on(rng: &mut Rng) -> Knobs {
        let mut k = Knobs::random(rng);
        k.loops = true;
        k.ifs = true;
        k.arrays = true;
        k.components = true;
        k.calls = true;
        k.ternary = true;
        k.compound = true;
        k.bitops = true;
        k.divops = true;
        k.shifts = true;
        k.pow = true;
        k.shadowing = true;
        k.unsafe_assign = true;
        k
    }
}

pub const PRIMES: [&str; 3] = [
    "21888242871839275222246405745257275088548364400416034343698204186575808495617",
    "52435875175126190479447740508185965837690552500527637822603658699938581184513",
    "18446744069414584321",
];

#[derive(Clone, Debug)]
struct VarInfo {
    name: String,
    dims: usize, // number of array dimensions (each of size 1..3, literal)
    size: usize,
}

#[derive(Clone, Debug)]
struct SigInfo {
    name: String,
    io: u8, // 0 input, 1 output, 2 intermediate
    dims: usize,
    size: usize,
    assigned: bool,
}

#[derive(Clone, Debug)]
struct CompInfo {
    name: String,
    template: usize, // index into the registry
}

/// What other definitions may be referenced from the one being generated.
#[derive(Clone, Debug, Default)]
pub struct Registry {
    pub templates: Vec<Def>, // signatures only are used
    pub functions: Vec<(String, usize)>,
    /// canonical IsZero / Num2Bits / Bits2Num / LessThan are defined in the project
    pub has_circomlib: bool,
}

struct Ctx<'a> {
    rng: &'a mut Rng,
    k: &'a Knobs,
    reg: &'a Registry,
    in_function: bool,
    scopes: Vec<Vec<VarInfo>>,
    marks: Vec<(usize, usize)>,
    sigs: Vec<SigInfo>,
    comps: Vec<CompInfo>,
    budget: usize,
    fresh: usize,
    refs: Vec<String>,
    self_name: String,
    self_params: usize,
    loop_vars: Vec<String>,
}

const VAR_POOL: [&str; 12] = ["x", "y", "z", "acc", "tmp", "x_0", "x_1", "n", "k", "v", "lc", "e2"];
const SIG_POOL: [&str; 8] = ["s", "t", "aux", "mid", "in_0", "q", "r", "bits"];
const LOOP_POOL: [&str; 3] = ["i", "j", "l"];

impl<'a> Ctx<'a> {
    fn all_vars(&self) -> Vec<VarInfo> {
        // innermost declaration of each name wins
        let mut seen: BTreeMap<String, VarInfo> = BTreeMap::new();
        for sc in &self.scopes {
            for v in sc {
                seen.insert(v.name.clone(), v.clone());
            }
        }
        seen.into_values().collect()
    }

    fn declared_anywhere(&self, name: &str) -> bool {
        self.scopes.iter().any(|s| s.iter().any(|v| v.name == name))
            || self.sigs.iter().any(|s| s.name == name)
            || self.comps.iter().any(|c| c.name == name)
    }

    fn declared_in_current_scope(&self, name: &str) -> bool {
        self.scopes.last().map(|s| s.iter().any(|v| v.name == name)).unwrap_or(false)
    }

    fn new_var_name(&mut self) -> String {
        // small, collision-prone pool; shadowing an outer declaration is allowed
        // only when the knob says so.
        for _ in 0..8 {
            let existing: Vec<String> = self.scopes.iter().flat_map(|sc| sc.iter().map(|v| v.name.clone())).filter(|n| !n.contains('$') && !n.ends_with("_0")).collect();
            let cand = if self.k.odd_names && !existing.is_empty() && self.rng.chance(1, 5) {
                // a name that looks like the renamed form of an existing (possibly shadowed) one
                let w = existing[self.rng.usize(existing.len())].clone();
                let sep = *self.rng.pick(&["$", "_", "$"]);
                format!("{w}{sep}{}", self.rng.usize(2))
            } else if self.k.odd_names && self.rng.chance(1, 4) {
                self.rng.pick(&["x$0", "acc$0", "s", "t", "x$1", "aux"]).to_string()
            } else {
                self.rng.pick(&VAR_POOL).to_string()
            };
            if self.sigs.iter().any(|s| s.name == cand) || self.comps.iter().any(|c| c.name == cand) {
                continue;
            }
            if self.declared_in_current_scope(&cand) {
                continue;
            }
            let shadows = self.declared_anywhere(&cand);
            if shadows && !(self.k.shadowing && self.scopes.len() > 1) {
                continue;
            }
            return cand;
        }
        self.fresh += 1;
        format!("w{}", self.fresh)
    }

    fn new_sig_name(&mut self) -> String {
        for _ in 0..8 {
            let cand = if self.k.odd_names && self.rng.chance(1, 4) {
                self.rng.pick(&["x", "v", "tmp", "acc"]).to_string()
            } else {
                self.rng.pick(&SIG_POOL).to_string()
            };
            if !self.declared_anywhere(&cand) {
                return cand;
            }
        }
        self.fresh += 1;
        format!("sg{}", self.fresh)
    }

    fn literal(&mut self) -> Expr {
        let r = self.rng.usize(100);
        let s = if r < 55 {
            format!("{}", self.rng.usize(5))
        } else if r < 80 {
            format!("{}", self.rng.usize(300))
        } else if r < 88 && self.k.hex {
            if self.rng.chance(1, 4) {
                // digit counts around the machine word sizes, any leading digit
                let digits = *self.rng.pick(&[8usize, 15, 16, 16, 17, 32, 33, 64]);
                let mut h = String::from("0x");
                for d in 0..digits {
                    let v = if d == 0 { 1 + self.rng.usize(15) } else if self.rng.chance(1, 3) { 15 } else { self.rng.usize(16) };
                    let c = std::char::from_digit(v as u32, 16).unwrap();
                    h.push(if self.rng.chance(1, 2) { c.to_ascii_uppercase() } else { c });
                }
                h
            } else {
                format!("0x{:x}", self.rng.below(1 << 20))
            }
        } else if self.k.big_literals {
            match self.rng.usize(8) {
                6 => format!("{}", [1u128 << 31, 1u128 << 32, (1u128 << 63) - 1, 1u128 << 63, (1u128 << 64) - 1, 1u128 << 64, u128::MAX][self.rng.usize(7)]),
                7 => {
                    // p + small
                    let p: num_bigint_dig::BigInt = PRIMES[self.k.prime].parse().unwrap();
                    (p + num_bigint_dig::BigInt::from(1 + self.rng.usize(300))).to_string()
                }
                0 => PRIMES[self.k.prime].to_string(),
                1 => {
                    // p - 1
                    let p: num_bigint_dig::BigInt = PRIMES[self.k.prime].parse().unwrap();
                    (p - num_bigint_dig::BigInt::from(1)).to_string()
                }
                2 => {
                    let p: num_bigint_dig::BigInt = PRIMES[self.k.prime].parse().unwrap();
                    (p / num_bigint_dig::BigInt::from(2)).to_string()
                }
                3 => format!("{}", 1u128 << (60 + self.rng.usize(60))),
                4 => "115792089237316195423570985008687907853269984665640564039457584007913129639936".to_string(), // 2^256
                _ => format!("{}", self.rng.next_u64()),
            }
        } else {
            format!("{}", self.rng.usize(20))
        };
        Expr::Num(s)
    }

    fn small_index(&mut self, size: usize) -> Expr {
        if self.k.odd_permille > 0 && self.rng.below(1000) < self.k.odd_permille as u64 {
            return self.odd_expr(0);
        }
        if !self.loop_vars.is_empty() && self.rng.chance(1, 2) {
            let v = self.rng.pick(&self.loop_vars).clone();
            return Expr::Var(v);
        }
        Expr::Num(format!("{}", self.rng.usize(size.max(1))))
    }

    fn var_read(&mut self) -> Option<Expr> {
        let vars = self.all_vars();
        if vars.is_empty() {
            return None;
        }
        let v = self.rng.pick(&vars).clone();
        if v.dims == 0 {
            Some(Expr::Var(v.name))
        } else {
            let accs = (0..v.dims).map(|_| Acc::Idx(self.small_index(v.size))).collect();
            Some(Expr::Access(v.name, accs))
        }
    }

    fn sig_read(&mut self) -> Option<Expr> {
        if self.in_function {
            return None;
        }
        let mut cands: Vec<Expr> = Vec::new();
        let sigs = self.sigs.clone();
        for s in &sigs {
            if s.dims == 0 {
                cands.push(Expr::Var(s.name.clone()));
            } else {
                let accs = (0..s.dims).map(|_| Acc::Idx(self.small_index(s.size))).collect();
                cands.push(Expr::Access(s.name.clone(), accs));
            }
        }
        let comps = self.comps.clone();
        for c in &comps {
            let t = &self.reg.templates[c.template];
            for o in &t.outputs {
                let mut accs = vec![Acc::Port(o.name.clone())];
                for d in &o.dims {
                    accs.push(Acc::Idx(self.small_index(*d)));
                }
                cands.push(Expr::Access(c.name.clone(), accs));
            }
        }
        if cands.is_empty() {
            None
        } else {
            Some(self.rng.pick(&cands).clone())
        }
    }

    fn infix_op(&mut self) -> &'static str {
        let mut ops: Vec<&'static str> = vec!["+", "-", "*", "+", "*", "-", "==", "!=", "<", ">", "<=", ">=", "&&", "||"];
        if self.k.divops {
            ops.extend(["/", "\\", "%"]);
        }
        if self.k.bitops {
            ops.extend(["&", "|", "^"]);
        }
        if self.k.shifts {
            ops.extend(["<<", ">>"]);
        }
        if self.k.pow {
            ops.push("**");
        }
        ops[self.rng.usize(ops.len())]
    }

    /// mode 0: compile-time flavoured (vars, params, literals, calls);
    /// mode 1: may mention signals.
    fn expr(&mut self, depth: usize, mode: u8) -> Expr {
        if depth == 0 || self.rng.chance(1, 4) {
            return self.atom(mode);
        }
        match self.rng.usize(12) {
            0..=6 => {
                let op = self.infix_op();
                let l = self.expr(depth - 1, mode);
                let r = if matches!(op, "<<" | ">>" | "**") && self.rng.chance(3, 4) {
                    Expr::Num(format!("{}", self.rng.usize(9)))
                } else {
                    self.expr(depth - 1, mode)
                };
                Expr::Infix(Box::new(l), op, Box::new(r))
            }
            7 => {
                let op = *self.rng.pick(&["-", "!", "~"]);
                if op == "~" && !self.k.bitops {
                    return self.atom(mode);
                }
                Expr::Prefix(op, Box::new(self.expr(depth - 1, mode)))
            }
            8 if self.k.ternary => {
                let c = self.expr(depth - 1, mode);
                let a = self.expr(depth - 1, mode);
                let b = self.expr(depth - 1, mode);
                Expr::Paren(Box::new(Expr::Ternary(Box::new(c), Box::new(a), Box::new(b))))
            }
            9 if self.k.calls => self.call(depth - 1, mode).unwrap_or_else(|| self.atom(mode)),
            10 => Expr::Paren(Box::new(self.expr(depth - 1, mode))),
            _ => self.atom(mode),
        }
    }

    fn call(&mut self, depth: usize, mode: u8) -> Option<Expr> {
        let mut cands: Vec<(String, usize)> = self.reg.functions.clone();
        if self.in_function && self.rng.chance(1, 6) {
            cands.push((self.self_name.clone(), self.self_params));
        }
        if cands.is_empty() {
            return None;
        }
        let (name, n) = self.rng.pick(&cands).clone();
        let args = (0..n).map(|_| self.expr(depth.min(1), mode)).collect();
        if !self.refs.contains(&name) {
            self.refs.push(name.clone());
        }
        Some(Expr::Call(name, args))
    }

    fn odd_expr(&mut self, mode: u8) -> Expr {
        let a = self.plain_atom(mode);
        let b = self.plain_atom(mode);
        match self.rng.usize(10) {
            0 => Expr::Tuple(vec![a, b]),
            1 => Expr::Underscore,
            2 => Expr::Array(vec![a, Expr::Array(vec![b])]),
            3 => Expr::Call("no_such_function".into(), vec![a]),
            4 => {
                let (name, nparams, nin) = if !self.reg.templates.is_empty() {
                    let t = &self.reg.templates[self.rng.usize(self.reg.templates.len())];
                    (t.name.clone(), t.params.len(), t.inputs.len())
                } else {
                    ("NoSuchTemplate".to_string(), 0, 1)
                };
                Expr::Anon {
                    template: name,
                    params: (0..nparams).map(|_| Expr::Num("1".into())).collect(),
                    inputs: (0..nin).map(|_| (None, a.clone())).collect(),
                    parallel: self.rng.chance(1, 4),
                }
            }
            5 => match a {
                Expr::Var(v) => Expr::Access(v, vec![Acc::Port("out".into())]),
                other => other,
            },
            6 => match a {
                Expr::Var(v) => Expr::Access(v, vec![Acc::Idx(Expr::Tuple(vec![b.clone(), b]))]),
                other => other,
            },
            7 => Expr::Tuple(vec![a, Expr::Underscore, b]),
            8 => Expr::Prefix("-", Box::new(Expr::Tuple(vec![a, b]))),
            _ => Expr::Ternary(Box::new(Expr::Tuple(vec![a.clone(), b.clone()])), Box::new(a), Box::new(b)),
        }
    }

    fn atom(&mut self, mode: u8) -> Expr {
        if self.k.odd_permille > 0 && self.rng.below(1000) < self.k.odd_permille as u64 {
            return self.odd_expr(mode);
        }
        self.plain_atom(mode)
    }

    fn plain_atom(&mut self, mode: u8) -> Expr {
        let r = self.rng.usize(10);
        if mode == 1 && r < 5 {
            if let Some(e) = self.sig_read() {
                return e;
            }
        }
        if r < 8 {
            if let Some(e) = self.var_read() {
                return e;
            }
        }
        self.literal()
    }

    fn cond(&mut self) -> Expr {
        let mode = if !self.in_function && self.rng.chance(1, 4) { 1 } else { 0 };
        let l = self.expr(1, mode);
        let op = *self.rng.pick(&["<", ">", "==", "!=", "<=", ">="]);
        let r = self.expr(1, 0);
        let c = Expr::Infix(Box::new(l), op, Box::new(r));
        if self.rng.chance(1, 5) {
            let c2 = self.expr(1, 0);
            Expr::Infix(Box::new(c), *self.rng.pick(&["&&", "||"]), Box::new(c2))
        } else {
            c
        }
    }

    fn push_scope(&mut self) {
        self.scopes.push(Vec::new());
        self.marks.push((self.sigs.len(), self.comps.len()));
    }
    fn pop_scope(&mut self) {
        self.scopes.pop();
        // signals and components declared in the scope go out of scope with it
        if let Some((s, c)) = self.marks.pop() {
            self.sigs.truncate(s);
            self.comps.truncate(c);
        }
    }

    fn declare_var(&mut self, name: &str, dims: usize, size: usize) {
        self.scopes.last_mut().unwrap().push(VarInfo { name: name.to_string(), dims, size });
    }

    fn scalar_var_lhs(&mut self) -> Option<(Expr, VarInfo)> {
        let vars: Vec<VarInfo> = self.all_vars().into_iter().filter(|v| !self.loop_vars.contains(&v.name)).collect();
        if vars.is_empty() {
            return None;
        }
        let v = self.rng.pick(&vars).clone();
        if v.dims == 0 {
            Some((Expr::Var(v.name.clone()), v))
        } else {
            let accs = (0..v.dims).map(|_| Acc::Idx(self.small_index(v.size))).collect();
            Some((Expr::Access(v.name.clone(), accs), v))
        }
    }

    fn simple_stmt(&mut self) -> Stmt {
        // a statement that may be used as a bare (unbraced) body
        let ed = self.k.expr_depth;
        for _ in 0..6 {
            match self.rng.usize(10) {
                0..=3 => {
                    if let Some((lhs, _)) = self.scalar_var_lhs() {
                        let mode = if self.in_function { 0 } else if self.rng.chance(1, 5) { 1 } else { 0 };
                        let rhs = self.expr(ed, mode);
                        return Stmt::Assign { lhs, op: "=", rhs, reversed: false };
                    }
                }
                4 if self.k.compound => {
                    if let Some((lhs, _)) = self.scalar_var_lhs() {
                        let mut ops = vec!["+=", "-=", "*="];
                        if self.k.divops {
                            ops.extend(["/=", "\\=", "%="]);
                        }
                        if self.k.bitops {
                            ops.extend(["&=", "|=", "^="]);
                        }
                        if self.k.shifts {
                            ops.extend(["<<=", ">>="]);
                        }
                        if self.k.pow {
                            ops.push("**=");
                        }
                        let op = *self.rng.pick(&ops);
                        let rhs = if matches!(op, "<<=" | ">>=" | "**=") {
                            Expr::Num(format!("{}", self.rng.usize(9)))
                        } else {
                            self.expr(1, 0)
                        };
                        return Stmt::Compound { lhs, op, rhs };
                    }
                }
                5 if self.k.compound => {
                    if let Some((lhs, _)) = self.scalar_var_lhs() {
                        return Stmt::IncDec { lhs, op: *self.rng.pick(&["++", "--"]) };
                    }
                }
                6 if !self.in_function => {
                    if let Some(s) = self.signal_assign() {
                        return s;
                    }
                }
                7 if !self.in_function => {
                    if let (Some(l), r) = (self.sig_read(), self.expr(1, 1)) {
                        return Stmt::ConstraintEq(l, r);
                    }
                }
                8 if self.k.asserts => return Stmt::Assert(self.cond()),
                9 if self.k.logs => {
                    let mut args = Vec::new();
                    for _ in 0..self.rng.usize(3) {
                        if self.rng.chance(1, 3) {
                            let text = if !self.k.rare_shapes || self.rng.chance(1, 2) {
                                "value".to_string()
                            } else if self.rng.chance(1, 2) {
                                "wert é∑π ✓".to_string()
                            } else {
                                // long, with multi-byte characters at every offset class
                                let pad = self.rng.usize(6);
                                let n = 40 + self.rng.usize(80);
                                format!("{}{}", "x".repeat(pad), ["é", "∑", "𝔽", "aé∑"][self.rng.usize(4)].repeat(n))
                            };
                            args.push(LogArg::Str(text));
                        } else {
                            args.push(LogArg::E(self.expr(1, if self.in_function { 0 } else { 1 })));
                        }
                    }
                    return Stmt::Log(args);
                }
                _ => {}
            }
        }
        // fallback: declare-free no-op-ish statement
        if let Some((lhs, _)) = self.scalar_var_lhs() {
            let rhs = self.expr(1, 0);
            return Stmt::Assign { lhs, op: "=", rhs, reversed: false };
        }
        Stmt::Assert(Expr::Infix(Box::new(Expr::Num("1".into())), "==", Box::new(Expr::Num("1".into()))))
    }

    fn signal_assign(&mut self) -> Option<Stmt> {
        // assign an unassigned output/intermediate signal, or a component input
        let ed = self.k.expr_depth;
        let idxs: Vec<usize> =
            self.sigs.iter().enumerate().filter(|(_, s)| s.io != 0 && !s.assigned).map(|(i, _)| i).collect();
        if idxs.is_empty() {
            return None;
        }
        let i = *self.rng.pick(&idxs);
        let s = self.sigs[i].clone();
        let lhs = if s.dims == 0 {
            self.sigs[i].assigned = true;
            Expr::Var(s.name.clone())
        } else {
            // array signals: assign one element (may be assigned element-wise repeatedly)
            if self.rng.chance(1, 2) {
                self.sigs[i].assigned = true;
            }
            let accs = (0..s.dims).map(|_| Acc::Idx(self.small_index(s.size))).collect();
            Expr::Access(s.name.clone(), accs)
        };
        let unsafe_ = self.k.unsafe_assign && self.rng.chance(1, 3);
        let op = if unsafe_ { "<--" } else { "<==" };
        let rhs = self.expr(ed, 1);
        let reversed = self.k.reversed_assign && self.rng.chance(1, 3);
        Some(Stmt::Assign { lhs, op, rhs, reversed })
    }

    fn body_of(&mut self, depth: usize) -> Stmt {
        if self.k.bare_bodies && self.rng.chance(1, 3) {
            return self.simple_stmt();
        }
        self.push_scope();
        let n = 1 + self.rng.usize(3);
        let stmts = self.stmts(n, depth);
        self.pop_scope();
        Stmt::Block(stmts)
    }

    fn stmts(&mut self, n: usize, depth: usize) -> Vec<Stmt> {
        let mut out = Vec::new();
        for _ in 0..n {
            if self.budget == 0 {
                break;
            }
            self.budget -= 1;
            let s = self.stmt(depth);
            out.push(s);
        }
        out
    }

    fn stmt(&mut self, depth: usize) -> Stmt {
        let ed = self.k.expr_depth;
        let can_nest = depth < self.k.max_depth;
        for _ in 0..4 {
            match self.rng.usize(18) {
                0 | 1 => {
                    // var declaration
                    let mut items = Vec::new();
                    let n = if self.k.multi_decl && self.rng.chance(1, 3) { 2 } else { 1 };
                    for _ in 0..n {
                        // with the knob on, sometimes re-declare an outer scalar as an array on purpose
                        let mut forced: Option<String> = None;
                        if self.k.dim_exprs && self.k.arrays && self.k.shadowing && self.scopes.len() > 1 && self.rng.chance(1, 5) {
                            let outer: Vec<String> = self
                                .all_vars()
                                .into_iter()
                                .filter(|v| v.dims == 0 && !self.declared_in_current_scope(&v.name) && !self.loop_vars.contains(&v.name))
                                .map(|v| v.name)
                                .collect();
                            if !outer.is_empty() {
                                forced = Some(outer[self.rng.usize(outer.len())].clone());
                            }
                        }
                        let name = match &forced {
                            Some(f) => f.clone(),
                            None => self.new_var_name(),
                        };
                        if items.iter().any(|it: &DeclItem| it.name == name) {
                            continue;
                        }
                        let is_arr = forced.is_some() || (self.k.arrays && self.rng.chance(1, 4));
                        if is_arr {
                            let size = 1 + self.rng.usize(3);
                            let init = if self.rng.below(1000) < self.k.array_init_permille as u64 {
                                Some(Expr::Array((0..size).map(|_| self.expr(1, 0)).collect()))
                            } else {
                                None
                            };
                            // the dimension is evaluated in the scope the declaration is made in: a
                            // read of the name being shadowed there means the outer variable
                            let mut dim = Expr::Num(format!("{size}"));
                            if self.k.dim_exprs && self.rng.chance(1, 2) {
                                let scalars: Vec<String> = self.all_vars().into_iter().filter(|v| v.dims == 0).map(|v| v.name).collect();
                                let own = scalars.iter().find(|v| **v == name).cloned();
                                let pick = match own {
                                    Some(v) if self.rng.chance(3, 4) => Some(v),
                                    _ if !scalars.is_empty() => Some(scalars[self.rng.usize(scalars.len())].clone()),
                                    _ => None,
                                };
                                if let Some(v) = pick {
                                    let zero = Expr::Infix(Box::new(Expr::Num("0".into())), "*", Box::new(Expr::Var(v)));
                                    dim = Expr::Infix(Box::new(dim), "+", Box::new(zero));
                                }
                            }
                            items.push(DeclItem { name: name.clone(), dims: vec![dim], init });
                            self.declare_var(&name, 1, size);
                        } else {
                            let init = if self.rng.chance(19, 20) {
                                let mode = if self.in_function || self.rng.chance(3, 4) { 0 } else { 1 };
                                Some(self.expr(ed, mode))
                            } else {
                                None
                            };
                            items.push(DeclItem { name: name.clone(), dims: vec![], init });
                            self.declare_var(&name, 0, 0);
                        }
                    }
                    if items.is_empty() {
                        continue;
                    }
                    return Stmt::Decl { kw: DeclKw::Var, items, init_op: "=" };
                }
                2 if !self.in_function => {
                    // intermediate signal declaration, maybe with init
                    let name = self.new_sig_name();
                    let tags = if self.k.tags && self.rng.chance(1, 3) { vec!["binary".to_string()] } else { vec![] };
                    let is_arr = self.k.arrays && self.rng.chance(1, 4);
                    if is_arr {
                        let size = 1 + self.rng.usize(3);
                        self.sigs.push(SigInfo { name: name.clone(), io: 2, dims: 1, size, assigned: false });
                        return Stmt::Decl {
                            kw: DeclKw::Signal { io: None, tags },
                            items: vec![DeclItem { name, dims: vec![Expr::Num(format!("{size}"))], init: None }],
                            init_op: "<==",
                        };
                    }
                    let with_init = self.rng.chance(1, 2);
                    let init = if with_init { Some(self.expr(ed, 1)) } else { None };
                    let op = if self.k.unsafe_assign && self.rng.chance(1, 3) { "<--" } else { "<==" };
                    self.sigs.push(SigInfo { name: name.clone(), io: 2, dims: 0, size: 0, assigned: with_init });
                    return Stmt::Decl {
                        kw: DeclKw::Signal { io: None, tags },
                        items: vec![DeclItem { name, dims: vec![], init }],
                        init_op: op,
                    };
                }
                3 | 4 if self.k.ifs && can_nest => {
                    let cond = self.cond();
                    let then = self.body_of(depth + 1);
                    let els = if self.rng.chance(1, 2) { Some(Box::new(self.body_of(depth + 1))) } else { None };
                    // avoid the dangling else: a bare `if` body is never generated, so only
                    // the then-branch needs care when it is itself bare and an else follows.
                    let then = match (&then, &els) {
                        (Stmt::Block(_), _) => then,
                        (_, Some(_)) => Stmt::Block(vec![then]),
                        _ => then,
                    };
                    return Stmt::If { cond, then: Box::new(then), els };
                }
                5 if self.k.loops && can_nest => {
                    // for loop over a fresh loop variable
                    let unused: Vec<&str> =
                        LOOP_POOL.iter().copied().filter(|v| !self.loop_vars.iter().any(|x| x == v) && !self.declared_anywhere(v)).collect();
                    if unused.is_empty() {
                        continue;
                    }
                    let lv = unused[0].to_string();
                    let bound = if self.rng.chance(1, 2) {
                        Expr::Num(format!("{}", 1 + self.rng.usize(3)))
                    } else {
                        self.var_read().unwrap_or(Expr::Num("2".into()))
                    };
                    self.push_scope();
                    self.declare_var(&lv, 0, 0);
                    self.loop_vars.push(lv.clone());
                    let body = self.body_of(depth + 1);
                    self.loop_vars.pop();
                    self.pop_scope();
                    let init = Stmt::Decl {
                        kw: DeclKw::Var,
                        items: vec![DeclItem { name: lv.clone(), dims: vec![], init: Some(Expr::Num("0".into())) }],
                        init_op: "=",
                    };
                    let cond = Expr::Infix(Box::new(Expr::Var(lv.clone())), "<", Box::new(bound));
                    let step = if self.rng.chance(2, 3) {
                        Stmt::IncDec { lhs: Expr::Var(lv.clone()), op: "++" }
                    } else {
                        Stmt::Compound { lhs: Expr::Var(lv.clone()), op: "+=", rhs: Expr::Num("1".into()) }
                    };
                    return Stmt::For { init: Box::new(init), cond, step: Box::new(step), body: Box::new(body) };
                }
                6 if self.k.loops && can_nest => {
                    // while loop on an existing scalar variable
                    let vars: Vec<VarInfo> = self.all_vars().into_iter().filter(|v| v.dims == 0).collect();
                    if vars.is_empty() {
                        continue;
                    }
                    let v = self.rng.pick(&vars).name.clone();
                    let cond = Expr::Infix(Box::new(Expr::Var(v.clone())), *self.rng.pick(&["<", "!=", ">"]), Box::new(self.expr(1, 0)));
                    self.push_scope();
                    let nb = 1 + self.rng.usize(2);
                    let mut body = self.stmts(nb, depth + 1);
                    body.push(Stmt::Compound { lhs: Expr::Var(v), op: *self.rng.pick(&["+=", "-="]), rhs: Expr::Num("1".into()) });
                    self.pop_scope();
                    return Stmt::While { cond, body: Box::new(Stmt::Block(body)) };
                }
                7 if self.k.components && !self.in_function && !self.reg.templates.is_empty() => {
                    if let Some(s) = self.component_block() {
                        return s;
                    }
                }
                8 if self.k.anon && !self.in_function && !self.reg.templates.is_empty() => {
                    if let Some(s) = self.anon_stmt() {
                        return s;
                    }
                }
                9 if self.k.tuples && !self.in_function => {
                    if let Some(s) = self.tuple_stmt() {
                        return s;
                    }
                }
                15 if self.k.rare_shapes && depth == 0 => {
                    if let Some(s) = self.rare_stmt() {
                        return s;
                    }
                }
                14 if self.k.arrays && depth == 0 && self.k.array_init_permille < 900 => {
                    if let Some(s) = self.array_idiom() {
                        return s;
                    }
                }
                12 | 13 if !self.in_function && self.reg.has_circomlib && depth == 0 => {
                    if let Some(s) = self.idiom() {
                        return s;
                    }
                }
                10 if can_nest && self.rng.chance(1, 3) => {
                    self.push_scope();
                    let n = 1 + self.rng.usize(2);
                    let b = self.stmts(n, depth + 1);
                    self.pop_scope();
                    return Stmt::Block(b);
                }
                11 if self.in_function && self.k.early_return && depth > 0 => {
                    return Stmt::Return(self.expr(ed, 0));
                }
                _ => return self.simple_stmt(),
            }
        }
        self.simple_stmt()
    }

    /// Circomlib idioms the analysis passes key on: a `<--` division guarded (or not)
    /// by IsZero instances, LessThan with (or without) Num2Bits range checks on its
    /// inputs, and binary conversions of various widths. Several instances may share
    /// one input, with and without their outputs constrained.
    fn idiom(&mut self) -> Option<Stmt> {
        let a = self.sig_read()?;
        let b = self.sig_read()?;
        self.fresh += 1;
        let id = self.fresh;
        let mut stmts: Vec<Stmt> = Vec::new();
        let port = |c: &str, p: &str| Expr::Access(c.to_string(), vec![Acc::Port(p.to_string())]);
        let port_i = |c: &str, p: &str, i: usize| {
            Expr::Access(c.to_string(), vec![Acc::Port(p.to_string()), Acc::Idx(Expr::Num(format!("{i}")))])
        };
        let comp = |name: &str, t: &str, args: Vec<Expr>| Stmt::Decl {
            kw: DeclKw::Component,
            items: vec![DeclItem { name: name.to_string(), dims: vec![], init: Some(Expr::Call(t.to_string(), args)) }],
            init_op: "=",
        };
        let widths = ["8", "32", "252", "253", "254", "255", "64"];
        match self.rng.usize(5) {
            4 => {
                // range checks in loops: one loop variable declared once and reused by every loop,
                // so the checked value `v[i]` is spelled alike in each loop and differs only in
                // the SSA version of `i`
                let groups = 1 + self.rng.usize(4);
                let i = format!("ri{id}");
                let mut src = format!("var {i} ;");
                for g in 0..groups {
                    let (v, nb, lt) = (format!("rcv{id}_{g}"), format!("rcn{id}_{g}"), format!("rcl{id}_{g}"));
                    let w = *self.rng.pick(&["8", "16", "64"]);
                    let mut ta = Vec::new();
                    expr_tokens(&a, &mut ta);
                    let mut tb = Vec::new();
                    expr_tokens(&b, &mut tb);
                    src.push_str(&format!(" signal {v} [ 2 ] ; component {nb} [ 2 ] ; component {lt} [ 2 ] ;"));
                    src.push_str(&format!(" for ( {i} = 0 ; {i} < 2 ; {i} ++ ) {{ {v} [ {i} ] <== {} + {i} ; }}", ta.join(" ")));
                    if self.rng.chance(3, 4) {
                        src.push_str(&format!(" for ( {i} = 0 ; {i} < 2 ; {i} ++ ) {{ {nb} [ {i} ] = Num2Bits ( {w} ) ; {nb} [ {i} ] . in <== {v} [ {i} ] ; }}"));
                    }
                    src.push_str(&format!(
                        " for ( {i} = 0 ; {i} < 2 ; {i} ++ ) {{ {lt} [ {i} ] = LessThan ( {w} ) ; {lt} [ {i} ] . in [ 0 ] <== {v} [ {i} ] ; {lt} [ {i} ] . in [ 1 ] <== {} ; }}",
                        tb.join(" ")
                    ));
                }
                for r in ["LessThan", "Num2Bits"] {
                    if !self.refs.iter().any(|x| x == r) {
                        self.refs.push(r.to_string());
                    }
                }
                return Some(Stmt::Raw(src.split_whitespace().map(|t| t.to_string()).collect()));
            }
            0 => {
                // q <-- a / b with 0..2 IsZero guards on b (now and then b is a constant)
                let b = if self.rng.chance(1, 4) { Expr::Num(format!("{}", 2 + self.rng.usize(5))) } else { b };
                let q = format!("quot{id}");
                stmts.push(Stmt::Decl {
                    kw: DeclKw::Signal { io: None, tags: vec![] },
                    items: vec![DeclItem { name: q.clone(), dims: vec![], init: Some(Expr::Infix(Box::new(a.clone()), "/", Box::new(b.clone()))) }],
                    init_op: "<--",
                });
                self.sigs.push(SigInfo { name: q.clone(), io: 2, dims: 0, size: 0, assigned: true });
                stmts.push(Stmt::ConstraintEq(Expr::Infix(Box::new(Expr::Var(q)), "*", Box::new(b.clone())), a.clone()));
                let n = self.rng.usize(3);
                for j in 0..n {
                    let c = format!("iz{id}_{j}");
                    stmts.push(comp(&c, "IsZero", vec![]));
                    stmts.push(Stmt::Assign { lhs: port(&c, "in"), op: "<==", rhs: b.clone(), reversed: false });
                    if self.rng.chance(1, 2) {
                        stmts.push(Stmt::ConstraintEq(port(&c, "out"), Expr::Num("0".into())));
                    }
                }
            }
            1 => {
                // LessThan with optional range checks on the inputs
                let w = *self.rng.pick(&widths);
                let c = format!("lt{id}");
                stmts.push(comp(&c, "LessThan", vec![Expr::Num(w.to_string())]));
                stmts.push(Stmt::Assign { lhs: port_i(&c, "in", 0), op: "<==", rhs: a.clone(), reversed: false });
                stmts.push(Stmt::Assign { lhs: port_i(&c, "in", 1), op: "<==", rhs: b.clone(), reversed: false });
                for (j, x) in [a.clone(), b.clone()].iter().enumerate() {
                    if self.rng.chance(1, 2) {
                        let nb = format!("rc{id}_{j}");
                        let w2 = *self.rng.pick(&widths);
                        stmts.push(comp(&nb, "Num2Bits", vec![Expr::Num(w2.to_string())]));
                        stmts.push(Stmt::Assign { lhs: port(&nb, "in"), op: "<==", rhs: x.clone(), reversed: false });
                    }
                }
                if self.rng.chance(1, 2) {
                    stmts.push(Stmt::ConstraintEq(port(&c, "out"), Expr::Num("1".into())));
                }
            }
            2 => {
                let w = if self.rng.chance(1, 4) { self.var_read().unwrap_or(Expr::Num("254".into())) } else { Expr::Num(self.rng.pick(&widths).to_string()) };
                let c = format!("nb{id}");
                stmts.push(comp(&c, "Num2Bits", vec![w]));
                stmts.push(Stmt::Assign { lhs: port(&c, "in"), op: "<==", rhs: a.clone(), reversed: false });
                if self.rng.chance(1, 2) {
                    stmts.push(Stmt::ConstraintEq(port_i(&c, "out", 0), b.clone()));
                }
            }
            _ => {
                let w = *self.rng.pick(&["2", "3", "254", "255"]);
                let c = format!("bn{id}");
                stmts.push(comp(&c, "Bits2Num", vec![Expr::Num(w.to_string())]));
                stmts.push(Stmt::Assign { lhs: port_i(&c, "in", 0), op: "<==", rhs: a.clone(), reversed: false });
                stmts.push(Stmt::Assign { lhs: port_i(&c, "in", 1), op: "<==", rhs: b.clone(), reversed: false });
                if self.rng.chance(1, 2) {
                    stmts.push(Stmt::ConstraintEq(port(&c, "out"), a.clone()));
                }
            }
        }
        for r in ["IsZero", "LessThan", "Num2Bits", "Bits2Num"] {
            if !self.refs.iter().any(|x| x == r) {
                self.refs.push(r.to_string());
            }
        }
        let mut toks = Vec::new();
        for s in &stmts {
            stmt_tokens(s, &mut toks);
        }
        Some(Stmt::Raw(toks))
    }

    /// A local array filled element by element in different basic blocks and read
    /// afterwards: the shape on which the degree (and value) of an array depends on
    /// the order in which the fixpoint iteration visits the writes.
    fn array_idiom(&mut self) -> Option<Stmt> {
        self.fresh += 1;
        let arr = format!("arr{}", self.fresh);
        let mode = if self.in_function { 0 } else { 1 };
        let mut stmts: Vec<Stmt> = Vec::new();
        stmts.push(Stmt::Decl {
            kw: DeclKw::Var,
            items: vec![DeclItem { name: arr.clone(), dims: vec![Expr::Num("2".into())], init: None }],
            init_op: "=",
        });
        let elem = |i: usize| Expr::Access(arr.clone(), vec![Acc::Idx(Expr::Num(format!("{i}")))]);
        if self.rng.chance(1, 4) {
            // the very first writes happen in two sibling branches
            let c = self.cond();
            let e1 = self.expr(2, mode);
            let e2 = self.expr(1, 0);
            let (i1, i2) = if self.rng.chance(1, 2) { (0, 1) } else { (0, 0) };
            stmts.push(Stmt::If {
                cond: c,
                then: Box::new(Stmt::Block(vec![Stmt::Assign { lhs: elem(i1), op: "=", rhs: e1, reversed: false }])),
                els: Some(Box::new(Stmt::Block(vec![Stmt::Assign { lhs: elem(i2), op: "=", rhs: e2, reversed: false }]))),
            });
            self.declare_var(&arr, 1, 2);
            let t = self.new_var_name();
            self.declare_var(&t, 0, 0);
            stmts.push(Stmt::Decl { kw: DeclKw::Var, items: vec![DeclItem { name: t, dims: vec![], init: Some(elem(0)) }], init_op: "=" });
            let mut toks = Vec::new();
            for s in &stmts {
                stmt_tokens(s, &mut toks);
            }
            return Some(Stmt::Raw(toks));
        }
        let first = self.rng.usize(2);
        let dd = 2 + self.rng.usize(2);
        let deep = self.expr(dd, mode);
        stmts.push(Stmt::Assign { lhs: elem(first), op: "=", rhs: deep, reversed: false });
        // something that ends the basic block
        let second_rhs = if self.rng.chance(2, 3) { self.expr(1, 0) } else { self.expr(2, mode) };
        let second = Stmt::Assign { lhs: elem(1 - first), op: "=", rhs: second_rhs, reversed: false };
        match self.rng.usize(4) {
            0 => {
                let c = self.cond();
                stmts.push(Stmt::If { cond: c, then: Box::new(Stmt::Block(vec![Stmt::Log(vec![LogArg::Str("x".into())])])), els: None });
                stmts.push(second);
            }
            1 => {
                let c = self.cond();
                stmts.push(Stmt::If { cond: c, then: Box::new(Stmt::Block(vec![second])), els: None });
            }
            2 => {
                let c = self.cond();
                let other = Stmt::Assign { lhs: elem(1 - first), op: "=", rhs: self.expr(1, 0), reversed: false };
                stmts.push(Stmt::If { cond: c, then: Box::new(Stmt::Block(vec![second])), els: Some(Box::new(Stmt::Block(vec![other]))) });
            }
            _ => stmts.push(second),
        }
        self.declare_var(&arr, 1, 2);
        // read it back
        let idx = self.rng.usize(2);
        if !self.in_function {
            if let Some(Stmt::Assign { lhs, .. }) = self.signal_assign() {
                let op = if self.rng.chance(1, 2) { "<--" } else { "<==" };
                stmts.push(Stmt::Assign { lhs, op, rhs: elem(idx), reversed: false });
            }
        }
        let mut toks = Vec::new();
        for s in &stmts {
            stmt_tokens(s, &mut toks);
        }
        Some(Stmt::Raw(toks))
    }

    fn rare_stmt(&mut self) -> Option<Stmt> {
        self.fresh += 1;
        let id = self.fresh;
        let mut stmts: Vec<Stmt> = Vec::new();
        match self.rng.usize(6) {
            0 | 4 | 5 if !self.in_function && !self.reg.templates.is_empty() => {
                // an array of components filled in a loop
                let ti = self.rng.usize(self.reg.templates.len());
                let t = self.reg.templates[ti].clone();
                if t.inputs.iter().any(|p| !p.dims.is_empty()) {
                    return None;
                }
                let name = format!("cs{id}");
                let args: Vec<String> = (0..t.params.len()).map(|_| "2".to_string()).collect();
                let mut src = format!("component {name} [ 2 ] ; for ( var ci{id} = 0 ; ci{id} < 2 ; ci{id} ++ ) {{ {name} [ ci{id} ] = {} ( {} ) ;", t.name, args.join(" , "));
                for p in &t.inputs {
                    let e = self.sig_read().map(|e| {
                        let mut toks = Vec::new();
                        expr_tokens(&e, &mut toks);
                        toks.join(" ")
                    }).unwrap_or_else(|| "1".into());
                    src.push_str(&format!(" {name} [ ci{id} ] . {} <== {e} ;", p.name));
                }
                src.push_str(" }");
                if let Some(o) = t.outputs.iter().find(|o| o.dims.is_empty()) {
                    src.push_str(&format!(" {name} [ 0 ] . {} === {name} [ 1 ] . {} ;", o.name, o.name));
                }
                if !self.refs.contains(&t.name) {
                    self.refs.push(t.name.clone());
                }
                return Some(Stmt::Raw(src.split_whitespace().map(|s| s.to_string()).collect()));
            }
            1 => {
                // a two-dimensional local array
                let name = format!("mat{id}");
                let e1 = self.expr(1, 0);
                let e2 = self.expr(1, 0);
                stmts.push(Stmt::Decl { kw: DeclKw::Var, items: vec![DeclItem { name: name.clone(), dims: vec![Expr::Num("2".into()), Expr::Num("2".into())], init: None }], init_op: "=" });
                let cell = |i: usize, j: usize| Expr::Access(name.clone(), vec![Acc::Idx(Expr::Num(format!("{i}"))), Acc::Idx(Expr::Num(format!("{j}")))]);
                stmts.push(Stmt::Assign { lhs: cell(0, 1), op: "=", rhs: e1, reversed: false });
                stmts.push(Stmt::Assign { lhs: cell(1, 0), op: "=", rhs: Expr::Infix(Box::new(cell(0, 1)), "+", Box::new(e2)), reversed: false });
                let t = self.new_var_name();
                self.declare_var(&t, 0, 0);
                stmts.push(Stmt::Decl { kw: DeclKw::Var, items: vec![DeclItem { name: t, dims: vec![], init: Some(cell(1, 0)) }], init_op: "=" });
            }
            2 => {
                // a tuple assignment that skips one element
                let (lhs, _) = self.scalar_var_lhs()?;
                let e1 = self.expr(1, 0);
                let e2 = self.expr(1, 0);
                let (l, r) = if self.rng.chance(1, 2) { (vec![lhs, Expr::Underscore], vec![e1, e2]) } else { (vec![Expr::Underscore, lhs], vec![e1, e2]) };
                if self.in_function {
                    return None;
                }
                stmts.push(Stmt::Assign { lhs: Expr::Tuple(l), op: "=", rhs: Expr::Tuple(r), reversed: false });
            }
            _ => {
                // a very long identifier
                let name = format!("a_rather_long_identifier_that_goes_on_and_on_and_on_for_a_while_{id}");
                let e = self.expr(1, 0);
                self.declare_var(&name, 0, 0);
                stmts.push(Stmt::Decl { kw: DeclKw::Var, items: vec![DeclItem { name, dims: vec![], init: Some(e) }], init_op: "=" });
            }
        }
        if stmts.is_empty() {
            return None;
        }
        let mut toks = Vec::new();
        for s in &stmts {
            stmt_tokens(s, &mut toks);
        }
        Some(Stmt::Raw(toks))
    }

    fn component_block(&mut self) -> Option<Stmt> {
        // component c = T(args); c.in <== e; ...   (flattened into a block-less sequence
        // is not possible from one Stmt, so emit a Raw-free Block only when nested;
        // at top level the caller splices Block contents).
        let ti = self.rng.usize(self.reg.templates.len());
        let t = self.reg.templates[ti].clone();
        let mut cname = None;
        for cand in ["c", "comp", "cmp", "lt", "n2b"] {
            if !self.declared_anywhere(cand) {
                cname = Some(cand.to_string());
                break;
            }
        }
        let cname = cname.unwrap_or_else(|| {
            self.fresh += 1;
            format!("c{}", self.fresh)
        });
        let args: Vec<Expr> = (0..t.params.len()).map(|_| self.expr(1, 0)).collect();
        let mut stmts = Vec::new();
        let init = Expr::Call(t.name.clone(), args);
        if !self.refs.contains(&t.name) {
            self.refs.push(t.name.clone());
        }
        if self.rng.chance(2, 3) {
            stmts.push(Stmt::Decl {
                kw: DeclKw::Component,
                items: vec![DeclItem { name: cname.clone(), dims: vec![], init: Some(init) }],
                init_op: "=",
            });
        } else {
            stmts.push(Stmt::Decl {
                kw: DeclKw::Component,
                items: vec![DeclItem { name: cname.clone(), dims: vec![], init: None }],
                init_op: "=",
            });
            stmts.push(Stmt::Assign { lhs: Expr::Var(cname.clone()), op: "=", rhs: init, reversed: false });
        }
        for inp in &t.inputs {
            if inp.dims.is_empty() {
                let rhs = self.expr(1, 1);
                let op = if self.k.unsafe_assign && self.rng.chance(1, 6) { "<--" } else { "<==" };
                stmts.push(Stmt::Assign {
                    lhs: Expr::Access(cname.clone(), vec![Acc::Port(inp.name.clone())]),
                    op,
                    rhs,
                    reversed: false,
                });
            } else {
                for i in 0..inp.dims[0] {
                    let rhs = self.expr(1, 1);
                    stmts.push(Stmt::Assign {
                        lhs: Expr::Access(
                            cname.clone(),
                            vec![Acc::Port(inp.name.clone()), Acc::Idx(Expr::Num(format!("{i}")))],
                        ),
                        op: "<==",
                        rhs,
                        reversed: false,
                    });
                }
            }
        }
        self.comps.push(CompInfo { name: cname, template: ti });
        Some(Stmt::Raw({
            let mut toks = Vec::new();
            for s in &stmts {
                stmt_tokens(s, &mut toks);
            }
            toks
        }))
    }

    fn anon_stmt(&mut self) -> Option<Stmt> {
        // out <== T(p)(a, b);   for templates with exactly one scalar output,
        // (o1, o2) <== T(p)(a) for several.
        let cands: Vec<usize> = (0..self.reg.templates.len())
            .filter(|&i| {
                let t = &self.reg.templates[i];
                !t.outputs.is_empty() && t.outputs.iter().all(|o| o.dims.is_empty()) && t.inputs.iter().all(|p| p.dims.is_empty())
            })
            .collect();
        if cands.is_empty() {
            return None;
        }
        let ti = *self.rng.pick(&cands);
        let t = self.reg.templates[ti].clone();
        let params: Vec<Expr> = (0..t.params.len()).map(|_| self.expr(1, 0)).collect();
        let named = self.rng.chance(1, 3) && !t.inputs.is_empty();
        let inputs: Vec<(Option<(String, &'static str)>, Expr)> = t
            .inputs
            .iter()
            .map(|p| {
                let e = self.expr(1, 1);
                if named {
                    let op = if self.k.rare_shapes && self.rng.chance(1, 3) { "<--" } else { "<==" };
                    (Some((p.name.clone(), op)), e)
                } else {
                    (None, e)
                }
            })
            .collect();
        if !self.refs.contains(&t.name) {
            self.refs.push(t.name.clone());
        }
        let anon = Expr::Anon { template: t.name.clone(), params, inputs, parallel: false };
        if t.outputs.len() == 1 {
            let name = self.new_sig_name();
            self.sigs.push(SigInfo { name: name.clone(), io: 2, dims: 0, size: 0, assigned: true });
            Some(Stmt::Decl {
                kw: DeclKw::Signal { io: None, tags: vec![] },
                items: vec![DeclItem { name, dims: vec![], init: Some(anon) }],
                init_op: "<==",
            })
        } else {
            let mut names = Vec::new();
            for _ in 0..t.outputs.len() {
                let n = self.new_sig_name();
                self.sigs.push(SigInfo { name: n.clone(), io: 2, dims: 0, size: 0, assigned: true });
                names.push(n);
            }
            Some(Stmt::TupleDecl { kw: DeclKw::Signal { io: None, tags: vec![] }, names, init_op: "<==", init: Some(anon) })
        }
    }

    fn tuple_stmt(&mut self) -> Option<Stmt> {
        // var (a, b) = (e1, e2);
        let a = self.new_var_name();
        let mut b = self.new_var_name();
        if a == b {
            self.fresh += 1;
            b = format!("w{}", self.fresh);
        }
        let e1 = self.expr(1, 0);
        let e2 = self.expr(1, 0);
        self.declare_var(&a, 0, 0);
        self.declare_var(&b, 0, 0);
        Some(Stmt::TupleDecl { kw: DeclKw::Var, names: vec![a, b], init_op: "=", init: Some(Expr::Tuple(vec![e1, e2])) })
    }
}

const TEMPLATE_NAMES: [&str; 10] = ["T", "U", "V", "W", "A", "B", "Mix", "Gate", "Inner", "Leaf"];
const CIRCOMLIB_NAMES: [&str; 8] = ["Num2Bits", "Bits2Num", "LessThan", "IsZero", "Sign", "AliasCheck", "Num2Bits_strict", "CompConstant"];
const FUNCTION_NAMES: [&str; 6] = ["f", "g", "h", "nbits", "log2", "sel"];

fn splice_raw(stmts: Vec<Stmt>) -> Vec<Stmt> {
    stmts
}

/// Canonical Circomlib templates (bodies as in circomlib, shapes the passes expect).
pub fn circomlib_defs() -> Vec<Def> {
    fn raw(name: &str, params: &[&str], src: &str, inputs: Vec<Port>, outputs: Vec<Port>, refs: &[&str]) -> Def {
        Def {
            kind: DefKind::Template { custom: false, parallel: false },
            name: name.to_string(),
            params: params.iter().map(|s| s.to_string()).collect(),
            body: vec![Stmt::Raw(src.split_whitespace().map(|s| s.to_string()).collect())],
            inputs,
            outputs,
            refs: refs.iter().map(|s| s.to_string()).collect(),
        }
    }
    let p = |n: &str, d: Vec<usize>| Port { name: n.to_string(), dims: d };
    vec![
        raw(
            "IsZero",
            &[],
            "signal input in ; signal output out ; signal inv ; inv <-- in != 0 ? 1 / in : 0 ; out <== - in * inv + 1 ; in * out === 0 ;",
            vec![p("in", vec![])],
            vec![p("out", vec![])],
            &[],
        ),
        raw(
            "Num2Bits",
            &["n"],
            "signal input in ; signal output out [ n ] ; var lc1 = 0 ; var e2 = 1 ; for ( var i = 0 ; i < n ; i ++ ) { out [ i ] <-- ( in >> i ) & 1 ; out [ i ] * ( out [ i ] - 1 ) === 0 ; lc1 += out [ i ] * e2 ; e2 = e2 + e2 ; } lc1 === in ;",
            vec![p("in", vec![])],
            vec![p("out", vec![2])],
            &[],
        ),
        raw(
            "Bits2Num",
            &["n"],
            "signal input in [ n ] ; signal output out ; var lc1 = 0 ; var e2 = 1 ; for ( var i = 0 ; i < n ; i ++ ) { lc1 += in [ i ] * e2 ; e2 = e2 + e2 ; } lc1 ==> out ;",
            vec![p("in", vec![2])],
            vec![p("out", vec![])],
            &[],
        ),
        raw(
            "LessThan",
            &["n"],
            "assert ( n <= 252 ) ; signal input in [ 2 ] ; signal output out ; component n2b = Num2Bits ( n + 1 ) ; n2b . in <== in [ 0 ] + ( 1 << n ) - in [ 1 ] ; out <== 1 - n2b . out [ n ] ;",
            vec![p("in", vec![2])],
            vec![p("out", vec![])],
            &["Num2Bits"],
        ),
    ]
}

pub fn gen_function(rng: &mut Rng, k: &Knobs, reg: &Registry, name: &str) -> Def {
    let nparams = rng.usize(4);
    let params: Vec<String> = ["a", "b", "n", "m"].iter().take(nparams).map(|s| s.to_string()).collect();
    let mut ctx = Ctx {
        rng,
        k,
        reg,
        in_function: true,
        scopes: vec![params.iter().map(|p| VarInfo { name: p.clone(), dims: 0, size: 0 }).collect(), Vec::new()],
        marks: vec![],
        sigs: vec![],
        comps: vec![],
        budget: k.max_stmts,
        fresh: 0,
        refs: vec![],
        self_name: name.to_string(),
        self_params: nparams,
        loop_vars: vec![],
    };
    let n = 1 + ctx.rng.usize(k.max_stmts.max(1));
    let mut body = ctx.stmts(n, 0);
    let ed = k.expr_depth;
    body.push(Stmt::Return(ctx.expr(ed, 0)));
    let refs = ctx.refs.clone();
    Def { kind: DefKind::Function, name: name.to_string(), params, body: splice_raw(body), inputs: vec![], outputs: vec![], refs }
}

pub fn gen_template(rng: &mut Rng, k: &Knobs, reg: &Registry, name: &str) -> Def {
    let nparams = rng.usize(3);
    let mut params: Vec<String> = ["n", "m"].iter().take(nparams).map(|s| s.to_string()).collect();
    if k.dup_params && nparams == 2 && rng.chance(1, 4) {
        params[1] = params[0].clone();
    }
    let custom = k.custom_templates && rng.chance(1, 3);
    let parallel = rng.chance(1, 12);
    // ports
    let n_in = 1 + rng.usize(3);
    let n_out = rng.usize(3);
    let in_names = ["in", "a", "b", "c"];
    let out_names = ["out", "o2", "o3"];
    let mut inputs = Vec::new();
    let mut outputs = Vec::new();
    for i in 0..n_in {
        let dims = if k.arrays && rng.chance(1, 4) { vec![1 + rng.usize(3)] } else { vec![] };
        inputs.push(Port { name: in_names[i].to_string(), dims });
    }
    for i in 0..n_out {
        let dims = if k.arrays && rng.chance(1, 5) { vec![1 + rng.usize(3)] } else { vec![] };
        outputs.push(Port { name: out_names[i].to_string(), dims });
    }
    let mut body = Vec::new();
    let mut sigs = Vec::new();
    let tag = |rng: &mut Rng| if k.tags && rng.chance(1, 4) { vec!["maxbit".to_string()] } else { vec![] };
    for p in &inputs {
        let dims: Vec<Expr> = p.dims.iter().map(|d| Expr::Num(format!("{d}"))).collect();
        body.push(Stmt::Decl {
            kw: DeclKw::Signal { io: Some("input"), tags: tag(rng) },
            items: vec![DeclItem { name: p.name.clone(), dims, init: None }],
            init_op: "<==",
        });
        sigs.push(SigInfo { name: p.name.clone(), io: 0, dims: p.dims.len(), size: p.dims.first().copied().unwrap_or(0), assigned: true });
    }
    for p in &outputs {
        let dims: Vec<Expr> = p.dims.iter().map(|d| Expr::Num(format!("{d}"))).collect();
        body.push(Stmt::Decl {
            kw: DeclKw::Signal { io: Some("output"), tags: tag(rng) },
            items: vec![DeclItem { name: p.name.clone(), dims, init: None }],
            init_op: "<==",
        });
        sigs.push(SigInfo { name: p.name.clone(), io: 1, dims: p.dims.len(), size: p.dims.first().copied().unwrap_or(0), assigned: false });
    }
    // one input name declared in both branches of a conditional (legal since Circom 2.1):
    // the name table has one entry, the declaration-order list two
    if k.odd_names && rng.chance(1, 5) {
        body.push(Stmt::Raw("if ( 1 == 1 ) { signal input dupin ; } else { signal input dupin ; }".split_whitespace().map(|s| s.to_string()).collect()));
        inputs.push(Port { name: "dupin".into(), dims: vec![] });
    }
    let mut ctx = Ctx {
        rng,
        k,
        reg,
        in_function: false,
        scopes: vec![params.iter().map(|p| VarInfo { name: p.clone(), dims: 0, size: 0 }).collect(), Vec::new()],
        marks: vec![],
        sigs,
        comps: vec![],
        budget: k.max_stmts,
        fresh: 0,
        refs: vec![],
        self_name: name.to_string(),
        self_params: nparams,
        loop_vars: vec![],
    };
    let n = 1 + ctx.rng.usize(k.max_stmts.max(1));
    body.extend(ctx.stmts(n, 0));
    // most templates assign every output
    if ctx.rng.chance(5, 6) {
        for _ in 0..6 {
            match ctx.signal_assign() {
                Some(s) => body.push(s),
                None => break,
            }
        }
    }
    // now and then a template instantiates itself (the runner then regenerates its CFG
    // while it is being analysed)
    if k.components && !custom && ctx.rng.chance(1, 10) {
        let args: Vec<String> = params.iter().map(|p| format!("{p} - 1")).collect();
        let mut src = format!("if ( {} ) {{ component rec = {} ( {} ) ;", params.first().map(|p| format!("{p} > 0")).unwrap_or_else(|| "1 > 0".into()), name, args.join(" , "));
        for p in &inputs {
            if p.dims.is_empty() {
                src.push_str(&format!(" rec . {} <== {} ;", p.name, p.name));
            } else {
                src.push_str(&format!(" rec . {} [ 0 ] <== {} [ 0 ] ;", p.name, p.name));
            }
        }
        src.push_str(" }");
        body.push(Stmt::Raw(src.split_whitespace().map(|s| s.to_string()).collect()));
    }
    let refs = ctx.refs.clone();
    Def { kind: DefKind::Template { custom, parallel }, name: name.to_string(), params, body: splice_raw(body), inputs, outputs, refs }
}

/// A single definition for the library tier (C14, C20): either kind.
pub fn gen_single_def(rng: &mut Rng, k: &Knobs) -> Def {
    // a Num2Bits-shaped template, so that binary conversions with constant and
    // non-constant sizes are instantiated (the size test of C20)
    let mut n2b = leaf_template("Num2Bits");
    n2b.params = vec!["n".into()];
    let mut b2n = leaf_template("Bits2Num");
    b2n.params = vec!["n".into()];
    // half of the single definitions use the Circomlib idioms (range checks, guarded
    // divisions, conversions); the templates they name need not exist for lifting
    let reg = Registry { templates: vec![leaf_template("Leaf"), n2b, b2n], functions: vec![("g".into(), 1)], has_circomlib: rng.chance(1, 2) };
    if rng.chance(1, 2) {
        gen_function(rng, k, &reg, "f")
    } else {
        gen_template(rng, k, &reg, "T")
    }
}

pub fn leaf_template(name: &str) -> Def {
    Def {
        kind: DefKind::Template { custom: false, parallel: false },
        name: name.to_string(),
        params: vec![],
        body: vec![],
        inputs: vec![Port { name: "in".into(), dims: vec![] }],
        outputs: vec![Port { name: "out".into(), dims: vec![] }],
        refs: vec![],
    }
}

// ---------------------------------------------------------------------------
// Projects
// ---------------------------------------------------------------------------

#[derive(Clone, Debug)]
pub struct Project {
    pub files: Vec<FileUnit>,
    /// indices of files named on the command line
    pub named: Vec<usize>,
    /// -L arguments (sandbox-relative)
    pub libs: Vec<String>,
}

#[derive(Clone, Debug)]
pub struct ProjectShape {
    pub max_files: usize,
    pub min_defs: usize,
    pub max_defs: usize,
    pub with_main: bool,
    pub pragma_always: bool,
    /// appended to every definition name (two packages in one project must not clash)
    pub name_suffix: String,
}

pub fn gen_project(rng: &mut Rng, k: &Knobs, shape: &ProjectShape) -> Project {
    let n_defs = shape.min_defs.max(1) + rng.usize(shape.max_defs + 1 - shape.min_defs.max(1));
    let n_files = 1 + rng.usize(shape.max_files.min(n_defs));
    let mut reg = Registry::default();
    let mut defs: Vec<Def> = Vec::new();
    let mut used_names: Vec<String> = Vec::new();
    let with_lib = k.circomlib_names && k.components && rng.chance(2, 3);
    if with_lib {
        reg.has_circomlib = true;
        for d in circomlib_defs() {
            used_names.push(d.name.clone());
        }
    }
    for _ in 0..n_defs {
        let is_fn = rng.chance(1, 3);
        if is_fn {
            let cands: Vec<&str> = FUNCTION_NAMES.iter().copied().filter(|n| !used_names.iter().any(|u| u == n)).collect();
            // big projects run out of pool names
            let mut base_name = if cands.is_empty() { format!("fn_{}", defs.len()) } else { rng.pick(&cands).to_string() };
            if k.shared_names && rng.chance(1, 2) {
                let taken: Vec<String> = reg.templates.iter().map(|t| t.name.clone()).filter(|n| !reg.functions.iter().any(|f| &f.0 == n) && !CIRCOMLIB_NAMES.contains(&n.as_str())).collect();
                if !taken.is_empty() && shape.name_suffix.is_empty() {
                    base_name = rng.pick(&taken).clone();
                }
            }
            let name = format!("{base_name}{}", shape.name_suffix);
            used_names.push(base_name);
            let d = gen_function(rng, k, &reg, &name);
            reg.functions.push((name.clone(), d.params.len()));
            used_names.push(name);
            defs.push(d);
        } else {
            let mut pool: Vec<&str> = TEMPLATE_NAMES.to_vec();
            if k.circomlib_names {
                pool.extend(CIRCOMLIB_NAMES);
            }
            let cands: Vec<&str> = pool.into_iter().filter(|n| !used_names.iter().any(|u| u == n)).collect();
            let base_name = if cands.is_empty() { format!("Tpl{}", defs.len()) } else { rng.pick(&cands).to_string() };
            let name = format!("{base_name}{}", shape.name_suffix);
            used_names.push(base_name);
            let d = gen_template(rng, k, &reg, &name);
            reg.templates.push(d.clone());
            used_names.push(name);
            defs.push(d);
        }
    }
    let odd_pick = if k.odd_file_names { rng.usize(9) } else { 0 };
    // Distribute definitions over files; file 0 is the root that (transitively) includes the others.
    let mut files: Vec<FileUnit> = (0..n_files)
        .map(|i| FileUnit {
            path: if !k.odd_file_names {
                if i == 0 { "main.circom".to_string() } else { format!("lib{i}.circom") }
            } else {
                let stem = ["main circuit", "lib#1", "lïb%20two", "a+b (copy)", "Ünïcode", "x=y&z", "v1 – final", "it’s €", "[draft]?"][(i + odd_pick) % 9];
                if i == 0 { format!("{stem}.circom") } else { format!("{stem} {i}.circom") }
            },
            pragma: None,
            custom_pragma: false,
            includes: vec![],
            defs: vec![],
            main: None,
        })
        .collect();
    let mut def_file: BTreeMap<String, usize> = BTreeMap::new();
    for d in defs {
        let fi = rng.usize(n_files);
        def_file.insert(d.name.clone(), fi);
        files[fi].defs.push(d);
    }
    let mut n_files = n_files;
    if with_lib {
        // the canonical templates live in their own file (usually only included)
        let li = files.len();
        files.push(FileUnit { path: "circomlib.circom".to_string(), ..Default::default() });
        for d in circomlib_defs() {
            def_file.insert(d.name.clone(), li);
            files[li].defs.push(d);
        }
        n_files += 1;
    }
    // includes: every file includes the files that define what it references, plus a chain for reachability
    for fi in 0..n_files {
        let mut incs: Vec<usize> = Vec::new();
        for d in &files[fi].defs {
            for r in &d.refs {
                if let Some(&other) = def_file.get(r) {
                    if other != fi && !incs.contains(&other) {
                        incs.push(other);
                    }
                }
            }
        }
        if fi + 1 < n_files && files[fi + 1].path != "circomlib.circom" && !incs.contains(&(fi + 1)) && rng.chance(2, 3) {
            incs.push(fi + 1);
        }
        let paths: Vec<String> = incs.iter().map(|&o| files[o].path.clone()).collect();
        files[fi].includes = paths.into_iter().map(|p| if rng.chance(1, 3) { format!("./{p}") } else { p }).collect();
    }
    for f in files.iter_mut() {
        let versions = ["2.0.0", "2.0.8", "2.1.0", "2.1.4", "2.1.2"];
        if shape.pragma_always || rng.chance(5, 6) {
            f.pragma = Some(rng.pick(&versions).to_string());
        }
        f.custom_pragma = f.defs.iter().any(|d| matches!(d.kind, DefKind::Template { custom: true, .. }));
    }
    if shape.with_main && rng.chance(1, 2) {
        // main instantiates some template of file 0 (or any)
        let all_templates: Vec<Def> = files.iter().flat_map(|f| f.defs.iter()).filter(|d| d.is_template()).cloned().collect();
        if !all_templates.is_empty() {
            let t = rng.pick(&all_templates).clone();
            let args = (0..t.params.len()).map(|_| Expr::Num(format!("{}", 1 + rng.usize(8)))).collect();
            let public = if rng.chance(1, 3) { t.inputs.iter().take(1).map(|p| p.name.clone()).collect() } else { vec![] };
            let tf = def_file[&t.name];
            if tf != 0 {
                let p = files[tf].path.clone();
                if !files[0].includes.iter().any(|i| i.trim_start_matches("./") == p) {
                    files[0].includes.push(p);
                }
            }
            files[0].main = Some(MainDecl { public, template: t.name.clone(), args });
        }
    }
    // which files are named: always file 0, sometimes more
    let mut named = vec![0];
    for i in 1..n_files {
        if rng.chance(1, 3) {
            named.push(i);
        }
    }
    Project { files, named, libs: vec![] }
}

/// Where each definition ended up: file -> (kind, name, first line, last line), 1-based.
#[derive(Clone, Debug, Default)]
pub struct Layout {
    pub defs: BTreeMap<String, Vec<(String, String, usize, usize)>>,
}

impl Layout {
    pub fn def_at(&self, path: &str, line: usize) -> Option<&(String, String, usize, usize)> {
        self.defs.get(path).and_then(|v| v.iter().find(|d| d.2 <= line && line <= d.3))
    }
}

impl Project {
    pub fn render(&self, rng: &mut Rng, style: &Style) -> crate::world::World {
        self.render_with_layout(rng, style).0
    }

    /// Render every file piecewise (header, each definition, main) so that the
    /// line range of every definition is known.
    pub fn render_with_layout(&self, rng: &mut Rng, style: &Style) -> (crate::world::World, Layout) {
        let mut w = crate::world::World::default();
        let mut layout = Layout::default();
        let base = rng.clone();
        for f in &self.files {
            let mut text = String::new();
            let mut head = f.clone();
            head.defs.clear();
            head.main = None;
            let mut toks = Vec::new();
            file_tokens(&head, &mut toks);
            if !toks.is_empty() {
                text.push_str(&render(&toks, style, rng));
            }
            let mut entries = Vec::new();
            for d in &f.defs {
                let mut toks = Vec::new();
                def_tokens(d, &mut toks);
                // layout choices of a definition depend only on its name, so that
                // reordering or adding definitions leaves every other text unchanged
                let mut dr = base.sub(&format!("def:{}", d.name));
                let t = render(&toks, style, &mut dr);
                let start = text.matches('\n').count() + 1;
                text.push_str(&t);
                let end = text.matches('\n').count();
                entries.push((d.kind_str().to_string(), d.name.clone(), start, end));
            }
            if f.main.is_some() {
                let mut tail = FileUnit::default();
                tail.main = f.main.clone();
                let mut toks = Vec::new();
                file_tokens(&tail, &mut toks);
                text.push_str(&render(&toks, style, rng));
            }
            if text.is_empty() {
                text.push('\n');
            }
            layout.defs.insert(f.path.clone(), entries);
            w.put(&f.path, &finish_file(text, style));
        }
        (w, layout)
    }
    pub fn named_paths(&self) -> Vec<String> {
        self.named.iter().map(|&i| self.files[i].path.clone()).collect()
    }
    /// (kind, name) of every definition in a named file.
    pub fn named_defs(&self) -> Vec<(String, String)> {
        let mut v = Vec::new();
        for &i in &self.named {
            for d in &self.files[i].defs {
                v.push((d.kind_str().to_string(), d.name.clone()));
            }
        }
        v
    }
}
