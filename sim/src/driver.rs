//! Batch driver: N simulated runs spread over worker threads. Results are
//! stored by run index, so that everything reported is independent of how the
//! operating system scheduled the workers.

use crate::procrun::{make_scratch, spawn_watchdog, Runner};
use std::path::PathBuf;
use std::sync::atomic::{AtomicUsize, Ordering};
use std::sync::Mutex;

pub struct Env {
    pub bin: PathBuf,
    pub shim: PathBuf,
    pub scratch: PathBuf,
    pub workers: usize,
    pub seed: u64,
    pub tier: String,
}

impl Env {
    pub fn from_env(tier: &str) -> Env {
        let seed = std::env::var("VERIF_SEED").ok().and_then(|s| s.parse::<u64>().ok()).unwrap_or(1);
        let workers = std::env::var("VERIF_WORKERS").ok().and_then(|s| s.parse::<usize>().ok()).unwrap_or_else(|| {
            std::thread::available_parallelism().map(|n| n.get()).unwrap_or(4).min(16)
        });
        let bin = PathBuf::from(std::env::var("SIM_BIN").unwrap_or_else(|_| "/verif/target/cs/release/circomspect".into()));
        let shim = PathBuf::from(std::env::var("SIM_SHIM").unwrap_or_else(|_| "/verif/target/shim/libsimshim.so".into()));
        Env { bin, shim, scratch: make_scratch(), workers, seed, tier: tier.to_string() }
    }

    pub fn quick(&self) -> bool {
        self.tier != "thorough"
    }

    pub fn cleanup(&self) {
        let _ = std::fs::remove_dir_all(&self.scratch);
    }

    /// Run `f(runner, i)` for i in 0..n on the worker pool; results in index order.
    pub fn par_map<T: Send, F: Fn(&Runner, usize) -> T + Sync>(&self, n: usize, f: F) -> Vec<T> {
        let runners: Vec<Runner> = (0..self.workers).map(|w| Runner::new(&self.bin, &self.shim, &self.scratch, w)).collect();
        spawn_watchdog(runners.iter().map(|r| r.slot.clone()).collect());
        let next = AtomicUsize::new(0);
        let slots: Vec<Mutex<Option<T>>> = (0..n).map(|_| Mutex::new(None)).collect();
        std::thread::scope(|s| {
            for r in &runners {
                let next = &next;
                let slots = &slots;
                let f = &f;
                s.spawn(move || loop {
                    let i = next.fetch_add(1, Ordering::SeqCst);
                    if i >= n {
                        break;
                    }
                    let v = f(r, i);
                    *slots[i].lock().unwrap() = Some(v);
                });
            }
        });
        slots.into_iter().map(|m| m.into_inner().unwrap().expect("worker result")).collect()
    }
}

pub fn harness_error(msg: &str) -> ! {
    eprintln!("HARNESS-ERROR: {msg}");
    println!("HARNESS-ERROR: {msg}");
    std::process::exit(2);
}
