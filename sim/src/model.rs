//! Reference model of the orchestration layer (C03): real stage code (parser,
//! CFG generation, SSA, every analysis pass), trivial orchestration: no report
//! cache, no take/replace of CFGs, no writers, no filters. Everything a stage
//! produces for a definition in a user-named file is collected once.

use codespan_reporting::files::Files;
use parser::ParseResult;
use program_analysis::analysis_context::{AnalysisContext, AnalysisError};
use program_analysis::{config, get_analysis_passes};
use program_structure::cfg::{Cfg, IntoCfg};
use program_structure::constants::Curve;
use program_structure::file_definition::{FileID, FileLibrary, FileLocation};
use program_structure::function_data::FunctionInfo;
use program_structure::report::{MessageCategory, Report, ReportCollection};
use program_structure::template_data::TemplateInfo;
use std::collections::BTreeMap;
use std::path::PathBuf;
use std::str::FromStr;

#[derive(Clone, Debug, PartialEq, Eq, PartialOrd, Ord)]
pub struct ModelReport {
    pub id: String,
    /// error | warning | note
    pub severity: String,
    pub message: String,
    /// (path as stored in the file library, line, column) of the locus codespan prints
    pub locus: Option<(String, u32, u32)>,
    /// start (line, column) of every primary label, for the SARIF comparison
    pub primary_starts: Vec<(String, u32, u32)>,
    pub has_primary: bool,
    pub primary_in_user_file: bool,
    /// which stage produced it: parse | cfg | lift-error | pass
    pub stage: String,
}

struct Ctx {
    templates: TemplateInfo,
    functions: FunctionInfo,
    files: FileLibrary,
    template_cfgs: BTreeMap<String, Cfg>,
    function_cfgs: BTreeMap<String, Cfg>,
}

impl AnalysisContext for Ctx {
    fn is_function(&self, name: &str) -> bool {
        self.functions.contains_key(name)
    }
    fn is_template(&self, name: &str) -> bool {
        self.templates.contains_key(name)
    }
    fn function(&mut self, name: &str) -> Result<&Cfg, AnalysisError> {
        if !self.functions.contains_key(name) {
            return Err(AnalysisError::UnknownFunction { name: name.to_string() });
        }
        self.function_cfgs.get(name).ok_or(AnalysisError::FailedToLiftFunction { name: name.to_string() })
    }
    fn template(&mut self, name: &str) -> Result<&Cfg, AnalysisError> {
        if !self.templates.contains_key(name) {
            return Err(AnalysisError::UnknownTemplate { name: name.to_string() });
        }
        self.template_cfgs.get(name).ok_or(AnalysisError::FailedToLiftTemplate { name: name.to_string() })
    }
    fn underlying_str(&self, file_id: &FileID, file_location: &FileLocation) -> Result<String, AnalysisError> {
        let Ok(file) = self.files.to_storage().get(*file_id) else {
            return Err(AnalysisError::UnknownFile { file_id: *file_id });
        };
        if file_location.end <= file.source().len() {
            Ok(file.source()[file_location.start..file_location.end].to_string())
        } else {
            Err(AnalysisError::InvalidLocation { file_id: *file_id, file_location: file_location.clone() })
        }
    }
}

fn severity(c: &MessageCategory) -> &'static str {
    match c {
        MessageCategory::Error => "error",
        MessageCategory::Warning => "warning",
        MessageCategory::Info => "note",
    }
}

fn convert(r: &Report, files: &FileLibrary, stage: &str) -> ModelReport {
    let storage = files.to_storage();
    let loc = |file_id: FileID, at: usize| -> Option<(String, u32, u32)> {
        let name = storage.get(file_id).ok()?.name().to_string();
        let l = storage.location(file_id, at).ok()?;
        Some((name, l.line_number as u32, l.column_number as u32))
    };
    // codespan's locus: in the file of the first label, the earliest start among the
    // labels of the strongest style (primary before secondary)
    let mut labels: Vec<(bool, FileID, usize)> = r.primary().iter().map(|l| (true, l.file_id, l.range.start)).collect();
    labels.extend(r.secondary().iter().map(|l| (false, l.file_id, l.range.start)));
    let locus = labels.first().and_then(|first| {
        let fid = first.1;
        let in_file: Vec<&(bool, FileID, usize)> = labels.iter().filter(|l| l.1 == fid).collect();
        let has_primary = in_file.iter().any(|l| l.0);
        let start = in_file.iter().filter(|l| l.0 == has_primary).map(|l| l.2).min()?;
        loc(fid, start)
    });
    ModelReport {
        id: r.id(),
        severity: severity(r.category()).to_string(),
        message: r.message().clone(),
        locus,
        primary_starts: r.primary().iter().filter_map(|l| loc(l.file_id, l.range.start)).collect(),
        has_primary: !r.primary().is_empty(),
        primary_in_user_file: r.primary().iter().any(|l| files.user_inputs().contains(&l.file_id)),
        stage: stage.to_string(),
    }
}

pub struct ModelOutput {
    pub reports: Vec<ModelReport>,
    /// (kind, name) of every definition in a user-named file
    pub user_defs: Vec<(String, String)>,
}

/// Must be called with the current directory irrelevant: all paths absolute.
pub fn run_model(inputs: &[PathBuf], libs: &[PathBuf], curve: &str) -> Result<ModelOutput, String> {
    let curve = Curve::from_str(curve).map_err(|e| format!("curve: {e}"))?;
    let (templates, functions, files, parse_reports) = match parser::parse_files(inputs, libs, &config::COMPILER_VERSION) {
        ParseResult::Program(p, w) => (p.templates, p.functions, p.file_library, w),
        ParseResult::Library(l, w) => (l.templates, l.functions, l.file_library, w),
    };
    let mut out: Vec<ModelReport> = parse_reports.iter().map(|r| convert(r, &files, "parse")).collect();
    // Lift every definition once for the lookup store (reports of these instances are dropped).
    let mut template_cfgs = BTreeMap::new();
    let mut function_cfgs = BTreeMap::new();
    let mut tnames: Vec<&String> = templates.keys().collect();
    tnames.sort();
    let mut fnames: Vec<&String> = functions.keys().collect();
    fnames.sort();
    for name in &tnames {
        let mut scratch = ReportCollection::new();
        if let Ok(cfg) = (&templates[*name]).into_cfg(&curve, &mut scratch) {
            if let Ok(cfg) = cfg.into_ssa() {
                template_cfgs.insert((*name).clone(), cfg);
            }
        }
    }
    for name in &fnames {
        let mut scratch = ReportCollection::new();
        if let Ok(cfg) = (&functions[*name]).into_cfg(&curve, &mut scratch) {
            if let Ok(cfg) = cfg.into_ssa() {
                function_cfgs.insert((*name).clone(), cfg);
            }
        }
    }
    let tn: Vec<String> = tnames.iter().map(|s| (*s).clone()).collect();
    let fnn: Vec<String> = fnames.iter().map(|s| (*s).clone()).collect();
    let mut ctx = Ctx { templates, functions, files, template_cfgs, function_cfgs };
    let mut user_defs = Vec::new();

    // Analyse every definition of a user-named file with a CFG instance of its own.
    for name in &fnn {
        let fid = ctx.functions[name].get_file_id();
        if !ctx.files.is_user_input(fid) {
            continue;
        }
        user_defs.push(("function".to_string(), name.clone()));
        let mut reports = ReportCollection::new();
        let lifted = (&ctx.functions[name]).into_cfg(&curve, &mut reports);
        analyse(lifted, reports, &mut ctx, &mut out);
    }
    for name in &tn {
        let fid = ctx.templates[name].get_file_id();
        if !ctx.files.is_user_input(fid) {
            continue;
        }
        user_defs.push(("template".to_string(), name.clone()));
        let mut reports = ReportCollection::new();
        let lifted = (&ctx.templates[name]).into_cfg(&curve, &mut reports);
        analyse(lifted, reports, &mut ctx, &mut out);
    }
    Ok(ModelOutput { reports: out, user_defs })
}

fn analyse(
    lifted: Result<Cfg, program_structure::cfg::errors::CFGError>,
    cfg_reports: ReportCollection,
    ctx: &mut Ctx,
    out: &mut Vec<ModelReport>,
) {
    for r in &cfg_reports {
        out.push(convert(r, &ctx.files, "cfg"));
    }
    match lifted {
        Err(e) => {
            let r: Report = e.into();
            out.push(convert(&r, &ctx.files, "lift-error"));
        }
        Ok(cfg) => match cfg.into_ssa() {
            Err(e) => {
                let r: Report = e.into();
                out.push(convert(&r, &ctx.files, "lift-error"));
            }
            Ok(cfg) => {
                for pass in get_analysis_passes() {
                    let reports = pass(ctx, &cfg);
                    for r in &reports {
                        out.push(convert(r, &ctx.files, "pass"));
                    }
                }
            }
        },
    }
}
