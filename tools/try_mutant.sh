#!/bin/bash
# usage: tools/try_mutant.sh <patch.diff> <PROP> [tier]   -- apply a seeded change to /repo, run a check, undo it
set -u
patch="$1"; prop="$2"; tier="${3:-quick}"
cd /repo || exit 2
if ! git diff --quiet; then echo "repo dirty"; exit 2; fi
git apply "$patch" || { echo "patch does not apply"; exit 2; }
cd /verif
./check "$prop" "$tier" > /tmp/try_mutant.out 2>&1; rc=$?
git -C /repo checkout -- . ; git -C /repo clean -fdq -- . 2>/dev/null; ./check build >/dev/null 2>&1
grep -E "^(VIOLATION|KNOWN-FINDING|HARNESS-ERROR|violation detail)" /tmp/try_mutant.out | cut -c1-300 | head -12
echo "exit=$rc"
exit $rc
