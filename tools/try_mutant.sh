#!/bin/bash
# usage: tools/try_mutant.sh <patch.diff> <PROP>[,<PROP>...] [tier]
# Apply a seeded change to /repo, run the given checks (each rebuilds from the working tree), undo it.
set -u
patch="$1"; props="$2"; tier="${3:-quick}"
cd /repo || exit 2
if ! git diff --quiet; then echo "repo dirty"; exit 2; fi
git apply "$patch" || { echo "patch does not apply"; exit 2; }
cd /verif
worst=0
for prop in ${props//,/ }; do
  ./check "$prop" "$tier" > /tmp/try_mutant.$prop.out 2>&1; rc=$?
  echo "--- $prop exit=$rc"
  grep -E "^(VIOLATION|HARNESS-ERROR|violation detail)" /tmp/try_mutant.$prop.out | cut -c1-300 | head -6
  [ $rc -gt $worst ] && worst=$rc
done
git -C /repo checkout -- . ; git -C /repo clean -fdq -- . 2>/dev/null
[ -n "${NO_REBUILD:-}" ] || ./check build >/dev/null 2>&1
exit $worst
