#!/usr/bin/env python3
"""Writes seeded/<id>/meta.json from the descriptions below, the confirm logs and seeded/MATRIX.txt."""
import json, os, re, subprocess
D = {
 # id: (property, what the change is, what it needs to manifest)
 "C01-m1": ("C01", "the 10 s time box goes through `MAX_ANALYSIS_DURATION - start.elapsed()`; Duration subtraction panics on underflow", "a propagation that is still running when the time box fires (a clock stall at any pass)"),
 "C01-m2": ("C01", "the arity guard of anonymous components counts inputs by name while the loop below still walks the declaration-order list and unwraps", "a template that declares one input name twice (both branches of an if), called anonymously with one argument per distinct name"),
 "C02-m1": ("C02", "cached lifting reports are emptied after each successful analysis 'to free memory' while the map keys (the already-failed marker) are kept", "a template that fails to lift, instantiated by another template of the project that is analysed first (hash order)"),
 "C02-m2": ("C02", "the user-input path set is replaced by a flag on the file-stack entry", "two named files where the later-processed one includes the other and the included one holds the failure"),
 "C02-m3": ("C02", "summary line and exit status are taken from the SARIF writer's count", "--sarif-file, a SARIF create/write failure, and any failure class in the input"),
 "C03-m1": ("C03", "the 'already failed to lift' check is hoisted in front of the CFG-cache lookup; empty report lists no longer create a cache entry", "template A with a CFG-stage report, instantiated by B, B analysed first (hash order): A's passes are skipped"),
 "C03-m2": ("C03", "the SARIF file is opened without truncation", "--sarif-file pointing at an existing, longer file"),
 "C03-m3": ("C03", "user-input flag decided by how a file is first reached", "a named file included by a later-listed named file (or a directory listing order)"),
 "C14-m1": ("C14", "the phi lookup matches on the base name only and ignores the shadowing suffix", "a shadowing redeclaration with both variables assigned in one loop or branch region"),
 "C14-m2": ("C14", "`break` instead of `continue` in the phi work list", "a block with two or more dominance-frontier members, a variable assigned only deeper inside, and a particular HashSet order"),
 "C14-m3": ("C14", "a silent 10 s time box on phi insertion", "more than 10 s of monotonic time inside the phi work list (a clock stall)"),
 "C17-m1": ("C17", "the unconstrained-division pass takes the first IsZero component in the HashMap whose input is the divisor instead of any", "`q <-- a / b` with two IsZero instances on b, only one with `out === 0`; the hash seed decides"),
 "C17-m3": ("C17", "user-input flag depends on input-file order", "two named files, the later-listed includes the earlier"),
 "C19-m1": ("C19", "a file is marked visited only after it parses successfully", "a file reachable through two include edges that cannot be read or parsed"),
 "C19-m2": ("C19", "library resolutions are cached by include string and consulted before the local lookup", "-L, one include spelling used in two directories, one of which has a local file of that name; stack order"),
 "C19-m3": ("C19", "local includes are normalised lexically instead of canonicalised", "a symlink on an include path plus another spelling of the same file"),
 "C20-m1": ("C20", "both fixpoint loops visit every block on every pass (`|=` instead of `||`)", "a local array written in two basic blocks, the first write with the higher degree, read afterwards, and a cut in the window before the wrong degree is overwritten"),
 "C20-m2": ("C20", "value and degree propagation share one 10 s budget computed by Duration subtraction", "any cut of value propagation"),
 "C20-m3": ("C20", "a thread-local scratch ValueEnvironment that is cleared at the fixpoint only", "a cut of one definition's value propagation; the next definition lifted inherits its constants"),
 "C01-r2-m1": ("C01", "`metadata(path).expect(..)` size guard in front of read_to_string", "an input that becomes un-stat-able between canonicalize and open (vanishes)"),
 "C01-r2-m2": ("C01", "each batch of reports is sorted with a comparator that is not a total order", "more than 20 reports in one batch including one without location, in an unlucky (hash-order) arrangement"),
 "C01-r2-m3": ("C01", "directories are canonicalised before they are listed", "a directory input containing a symlink to itself or an ancestor"),
 "C02-r2-m1": ("C02", "MultipleMainError gets a primary label at the main that was parsed last", "two mains, the last-parsed one in a file that is only included"),
 "C02-r2-m2": ("C02", "the file stack skips entries that are not regular files", "a named file that resolves but is gone (or is a special file) when it is popped"),
 "C02-r2-m3": ("C02", "the comment scanner gets a new state that the end-of-input check does not know", "a file ending inside a block comment whose last character is `*`"),
 "C03-r2-m1": ("C03", "the count behind summary and exit status is overwritten by the SARIF writer's return value", "--sarif-file plus a write fault and at least one displayed diagnostic"),
 "C03-r2-m2": ("C03", "whatever is left in the CFG-stage report cache after analysis is written out as well", "a failing-to-lift template instantiated by another and analysed first, or a self-instantiating template with a shadowing warning"),
 "C03-r2-m3": ("C03", "SARIF columns computed as byte offsets from the line start", "--sarif-file plus a multi-byte character before the label on the same line"),
 "C14-r2-m1": ("C14", "the phi work list becomes a HashSet processed in rounds with a wrong 'already queued' test", "a variable written only in a then-branch inside a loop, join block iterated before the then-block (hash order)"),
 "C14-r2-m2": ("C14", "`is_local` memoised per source identifier, ignoring the shadowing suffix", "one identifier declared as var in one scope and as signal/component in another"),
 "C14-r2-m3": ("C14", "the SSA version key separator changed from `.` to `$`", "an identifier `<id>$<n>` next to a shadowing redeclaration of `<id>`"),
 "C17-r2-m1": ("C17", "the cached stdout writer drops reports it has 'already seen', keyed without the file", "two files whose findings share code, message and byte offsets; hash order decides which file loses its findings"),
 "C17-r2-m2": ("C17", "the 10 s time box is measured from a process-wide start", "more than 10 s between the first definition being lifted and a later one (a clock stall in between)"),
 "C17-r2-m3": ("C17", "`return` instead of `continue` in FileStack::add_files after an unresolvable path", "a missing input path followed by other input files"),
 "C19-r2-m1": ("C19", "the library fallback only happens on ErrorKind::NotFound", "a local candidate failing with ENOTDIR / ELOOP / EACCES / ENAMETOOLONG"),
 "C19-r2-m2": ("C19", "user-input flag carried on the stack entry", "a named file first reached through an include of a later-listed named file"),
 "C19-r2-m3": ("C19", "the visited check moves from pop time to push time; the two library push sites stay unfiltered", "a library file reached more than once (diamond through -L, cycle spanning two -L directories)"),
 "C20-r2-m1": ("C20", "phi degree rule skips arguments without a degree; set_degree reports every change", "a loop-carried local whose degree grows and a read of it between loop header and assignment; a cut in the window (also wrong at intermediate 'fixpoints')"),
 "C20-r2-m2": ("C20", "the bail-out branches print a warning with eprintln!", "a cut plus a failing stderr (ENOSPC)"),
 "C20-r2-m3": ("C20", "after a degree time-out the signal-assignment pass estimates missing degrees from syntax", "a degree cut plus a `<--` whose expression contains a local holding a non-constant"),
}

D.update({
 "C01-r3-m1": ("C01", "shift_l tests `right < top` instead of `<=` while shift_r keeps `<=`: for a count of exactly p/2 the two delegate to each other forever", "a constant `<<` by exactly (p-1)/2 or `>>` by (p+1)/2 for the prime of the chosen curve"),
 "C01-r3-m2": ("C01", "the 10 s time box reads the wall clock (SystemTime) and expects it never to go backwards", "CLOCK_REALTIME stepping backwards between the start reading and an end-of-pass check"),
 "C01-r3-m3": ("C01", "--allow matching slices the report id to the length of the allow entry", "an allow entry longer than the id of a report that reaches the filter (CS0005 vs P1004 / CA01)"),
 "C02-r3-m1": ("C02", "an unreadable file gets a label at its first include site instead of a label-less error", "a named file that cannot be read and is also included through a file that is not named; the per-file filter then drops the report"),
 "C02-r3-m2": ("C02", "desugaring drops, without a report, every template that instantiates an already dropped template anonymously", "a broken template in an included-only file, a named template using it anonymously, and a hash order visiting the broken one first"),
 "C02-r3-m3": ("C02", "the source file is read with a single read(2) into a buffer sized by st_size", "a short read (or st_size 0) with the cut where the preceding text still parses"),
 "C03-r3-m1": ("C03", "the allow list is binary-searched; the stdout copy is sorted, the SARIF copy is not", "--sarif-file, two --allow ids in non-ascending order, a finding with the missed id"),
 "C03-r3-m2": ("C03", "SARIF conversion drops results whose rule id and primary span were already seen", "two displayed findings of one rule at one span (two unused outputs of one component)"),
 "C03-r3-m3": ("C03", "main returns `No issues found.` early when the file library holds no user input", "every named file fails to load (missing, dangling link, not UTF-8) so that only label-less errors were displayed"),
 "C14-r3-m1": ("C14", "the first element-wise array write in a scope restarts the version counter", "an uninitialised array whose first writes occur in two sibling branches"),
 "C14-r3-m2": ("C14", "the phi argument update stops at the first duplicate version", "a join with three predecessors, one variable with the same version on two of them, a second phi'd variable, phi order by hash"),
 "C14-r3-m3": ("C14", "visited marks persist across join nodes in the dominance-frontier walk", "a loop nested in a conditional branch with code after the conditional"),
 "C17-r3-m1": ("C17", "a definition whose lifting already failed is skipped before its cached error is written", "a template that cannot be lifted, instantiated by another user template that is analysed first (hash order)"),
 "C17-r3-m2": ("C17", "side-effect reports are de-duplicated by plain variable name while iterating a HashMap of SSA versions", "a variable with one unread version and one read-but-side-effect-free version"),
 "C17-r3-m3": ("C17", "include resolutions memoised by include string only", "two files in different directories with the same relative include naming different files"),
 "C19-r3-m1": ("C19", "-L entries are collected into a HashSet before they are registered", "two libraries that can both satisfy one include; the hash seed decides the search order"),
 "C19-r3-m2": ("C19", "entries of a directory argument are no longer canonicalised one by one", "a directory input containing a *.circom symlink to a file in another directory"),
 "C19-r3-m3": ("C19", "the version-pragma error is propagated with `?` before includes and definitions are recorded", "a file with an unsupported pragma that has includes or definitions that matter"),
 "C20-r3-m1": ("C20", "on time-out the values are 'flushed' once more with a phi rule that ignores arguments without a value", "a value cut and a loop-carried variable whose entry value is constant"),
 "C20-r3-m2": ("C20", "a debug_assert! after the value loop that one more pass finds nothing new", "a value cut before the converging pass, in a build with debug assertions"),
 "C20-r3-m3": ("C20", "the deadline check moves to the start of each pass and the bail-out message divides the elapsed time by the pass count", "the time box expiring before the first pass (division by zero)"),
})

D.update({
 "C01-r4-m1": ("C01", "`matches!(xtype, Component | AnonymousComponent)` becomes an equality test with Component; anonymous-component declarations fall into `unreachable!()`", "a well-formed anonymous component call inside a for/while body"),
 "C01-r4-m2": ("C01", "hex literals of at most 16 digits take a fast path through `i64::from_str_radix(..).expect(..)`", "a hex literal with exactly 16 digits and leading digit 8..f"),
 "C01-r4-m3": ("C01", "`2 ** n` is folded as `(1 << n) mod p` when n fits a usize", "a constant base 2 with a constant exponent of 10^10 or more (e.g. the Fermat inverse `2 ** (0 - 2)` under goldilocks)"),
 "C02-r4-m1": ("C02", "the arity check of anonymous components loses `|| inputs.len() != signals.len()`", "a named-input anonymous call that names every input and one more (unknown or repeated name)"),
 "C02-r4-m2": ("C02", "`template custom` definitions are left out of the list of templates to analyse", "pragma custom_templates and a custom template that fails at lifting (duplicate parameter), instantiated or not"),
 "C02-r4-m3": ("C02", "files below a -L directory are not user inputs, also when named explicitly", "-L <dir> with a named input at or below <dir> and a labelled failure in it"),
 "C03-r4-m1": ("C03", "the SARIF document is written with one `write` whose count is dropped instead of `write_all`", "--sarif-file and a short write(2) on that file"),
 "C03-r4-m2": ("C03", "CFG-stage reports are cached by insert; the failure path caches warnings and the error in two calls", "one definition that both shadows a variable and fails to lift (read before declaration)"),
 "C03-r4-m3": ("C03", "`?` on the compiler-version check returns before definitions, main and includes are recorded", "a named file whose pragma asks for a version newer than 2.1.4"),
 "C14-r4-m1": ("C14", "dominator sets become u64 bit vectors whose tail mask is zero when the block count is a multiple of 64", "a definition with exactly 64*k basic blocks"),
 "C14-r4-m2": ("C14", "the frontier block is re-queued once per block with `=` where `|=` was needed", "if/else in a loop, then-branch writes two variables, else-branch a strict subset, and a hash order"),
 "C14-r4-m3": ("C14", "the unique-variable pass stops renaming log arguments at the first string literal (`map_while`)", "log(\"text\", x) where x is a shadowing or re-declared variable"),
 "C17-r4-m1": ("C17", "the CFG caches are capped at 64 entries with eviction in HashMap order, next to the untouched 'reports but no CFG = lifting failed' test", "more than 64 templates with CFGs in one run, one instantiated by a template analysed earlier, and a hash order"),
 "C17-r4-m2": ("C17", "anonymous components are numbered by a process-wide counter consumed in HashMap order", "two templates with anonymous calls and a finding that prints the generated name (named input with `<--`)"),
 "C17-r4-m3": ("C17", "Expression equality ignores SSA versions while the hash does not", "one value range-checked by Num2Bits and compared by LessThan in two loops sharing one loop variable, and about 1 hasher state in 128"),
 "C19-r4-m1": ("C19", "a -L library file is matched by file name of the include, directory components ignored", "-L file.circom and an unresolvable include `dir/file.circom`"),
 "C19-r4-m2": ("C19", "file-stack pushes go through a helper that only accepts `*.circom` (library pushes excepted)", "an included file with another extension, or a *.circom symlink to one"),
 "C19-r4-m3": ("C19", "`//` comments are blanked one space per character, not per byte", "a line comment with non-ASCII text before an unresolvable include"),
 "C20-r4-m1": ("C20", "every SSA version of a parameter starts with the parameter's (constant) degree", "a parameter assigned in a loop with a signal factor, read by `<--` after the loop, and a cut in a two-pass window"),
 "C20-r4-m2": ("C20", "literals get value and degree at lifting, reduced modulo the BN254 prime whatever the curve", "another curve, a literal between the two primes, and a value cut before the literal is visited"),
 "C20-r4-m3": ("C20", "the time box is measured with SystemTime and `.elapsed().expect(..)`", "the wall clock stepping back between the start of a loop and one of its per-pass checks"),
})

D.update({
 "C01-r5-m1": ("C01", "--level and --curve get a clap possible-values list without ignore_case, in front of the case-insensitive FromStr", "a level or curve spelled in another case than the documented one (`--level info`, `--curve bn254`): exit status 2, no summary"),
 "C01-r5-m2": ("C01", "a validation loop expands every anonymous-component input a second time, per nesting level", "anonymous components nested about 16 deep or more in input position (2^depth expansions)"),
 "C01-r5-m3": ("C01", "main returns anyhow::Result and uses `?` on the SARIF write in front of the summary", "--sarif-file and a write failure: reports printed, no summary line"),
 "C02-r5-m1": ("C02", "`continue` for files without definitions, in front of the append of the file's own reports", "a named file with an unsupported pragma (or an unresolvable include) and no definition of its own"),
 "C02-r5-m2": ("C02", "tuple declarations with a literal initialiser are split by `zip` in the grammar action", "a length mismatch in `var (a, b) = (1, 2, 3)` / `signal (s, t) <== (..)`"),
 "C02-r5-m3": ("C02", "unique_vars skips bodies without declarations (and with them the parameter collision check); the 'already tracked' assert becomes keep-first", "duplicate parameter names on a definition whose body declares nothing"),
 "C03-r5-m1": ("C03", "clap `default_value_if(\"verbose\", \"true\", \"INFO\")` on --level", "-v without --level and an info-level finding"),
 "C03-r5-m2": ("C03", "analyze_function and analyze_template folded into one method that asks `is_template(name)`", "a function and a template with one name: the template is analysed twice, the function never"),
 "C03-r5-m3": ("C03", "parse errors of files that are not user inputs are dropped in parse_files", "an included-only file that resolves but cannot be read (location-less P1000)"),
 "C14-r5-m1": ("C14", "phis are kept sorted by variable name; the position scan walks past ordinary assignments", "a join block that starts with an assignment to a name sorting before the phi variable (an `if` last in a `for` body)"),
 "C14-r5-m2": ("C14", "an array element read with no version in scope takes 'the latest version' instead of failing", "an uninitialised array written in a sibling branch and read on a path without a dominating write"),
 "C14-r5-m3": ("C14", "variables_written consults a block-level cache that is not refreshed when phis are prepended", "an inner join block without local writes inside an outer if / while, and a read after the outer join"),
 "C17-r5-m1": ("C17", "definitions are analysed in source order; a lookup from another template lifts a cheap CFG (no propagation) that is later reused for the template's own analysis", "template A instantiates template B of the user files and A comes first (definition or file order)"),
 "C17-r5-m2": ("C17", "a function and a template with one name exclude each other in TemplateLibrary::new (ported to the tree after the duplicate-definition repair)", "a function and a template sharing a name: which is analysed depends on their order"),
 "C17-r5-m3": ("C17", "source files are read with one read(2) into a buffer sized from the metadata", "a short read, or a file whose st_size is 0"),
 "C19-r5-m1": ("C19", "the cached stdout writer drops reports whose (id, message, byte ranges) were seen before, file not in the key", "the same unresolvable include at the same byte offset in two files"),
 "C19-r5-m2": ("C19", "add_primary skips labels with an empty range", "an included-only file that ends inside a comment or a definition: its parse error loses its location and passes the per-file filter"),
 "C19-r5-m3": ("C19", "source files are read with one read(2)", "a short read on an included file"),
 "C20-r5-m1": ("C20", "the division pass treats a divisor without a degree as a constant (`map_or(true, ..)`)", "a degree cut before the divisor of a `<--` division has a degree"),
 "C20-r5-m2": ("C20", "the value rule of the inline switch negates the test for field-element conditions", "an inline switch whose condition is a known field element (fixpoint and most cuts)"),
 "C20-r5-m3": ("C20", "into_ssa returns early on a value time-out, skipping degree propagation and the final cache_variable_use", "any value cut: every local is then reported as never read"),
})

D.update({
 "C01-r6-m1": ("C01", "all definitions are lifted up front on a pool of scoped threads (8 MiB stacks) that claim jobs with a separate bound check and fetch_add", "two or more definitions and a nanosecond window (index out of bounds in a worker, exit 101); also far more memory for many definitions"),
 "C01-r6-m2": ("C01", "SARIF streamed through a BufWriter whose final into_inner() is `expect`ed", "--sarif-file on a target that opens but fails on write, with a document small enough to sit in the buffer"),
 "C01-r6-m3": ("C01", "templates without tuples or anonymous components skip the desugaring, which is also the only place that rejects a malformed multi-substitution", "`a + b <== c;` (or `5 = a;`) in a template with no tuple or anonymous component"),
 "C02-r6-m1": ("C02", "byte-identical sources are stored once in the file library; the early return sits in front of the user-input bookkeeping", "a named file that is byte-identical to an included-only file parsed before it, with the failure in that file"),
 "C02-r6-m2": ("C02", "the exit status is the issue count cast to u8", "a number of displayed reports that is a multiple of 256"),
 "C02-r6-m3": ("C02", "a project-wide 10 s analysis budget: definitions after the cut are neither lifted nor analysed", "more than 10 s between the first definition and a later one that cannot be lifted (hash order decides which come late)"),
 "C03-r6-m1": ("C03", "SARIF conversion splits 32 or more reports over 4 scoped threads of len/4 each and drops the remainder", "--sarif-file and at least 32 displayed findings, not a multiple of 4"),
 "C03-r6-m2": ("C03", "main returns early, without the summary line, when the SARIF file cannot be written and findings were displayed", "an unwritable --sarif-file and at least one finding"),
 "C03-r6-m3": ("C03", "the per-file filter keeps a located report iff its file id is below the number of inputs", "two or more inputs and a file parsed before the last input that includes a non-input file (file ids follow the LIFO stack)"),
 "C14-r6-m1": ("C14", "scope stacks of the SSA environment are recycled through a thread-local pool that only empties the top block", "a definition whose conversion fails inside nested scopes, followed on the same thread by one that reads a same-named local"),
 "C14-r6-m2": ("C14", "dominance frontiers of graphs with 64 or more blocks are computed by 4 worker threads over n/4 blocks each; the remainder is never scanned", "64 or more blocks, a count that is not a multiple of 4, and a join among the last n % 4 blocks"),
 "C14-r6-m3": ("C14", "parameter versions are answered from a side table that assignments never update", "a definition that assigns to its own parameter and reads it afterwards"),
 "C17-r6-m1": ("C17", "templates dropped by the desugaring are removed from a working copy of the template map while that map is iterated", "a template with a desugaring error, another one that instantiates it anonymously, and a hash order"),
 "C17-r6-m2": ("C17", "input files are read on worker threads and parsed in completion order", "findings that depend on the parse order (a name defined in two files) and a later file that is read faster than an earlier one"),
 "C17-r6-m3": ("C17", "the directories of the input files are appended to the library list, in command-line order", "inputs in different directories and an include that resolves neither locally nor through -L but exists next to another input"),
 "C19-r6-m1": ("C19", "definitions are collected in a Vec and keyed by their position afterwards; a file that fails to parse consumes a file id but pushes nothing", "a syntax error in a file that is not the last one parsed, with named and included-only files after it"),
 "C19-r6-m2": ("C19", "user inputs kept in a Vec sorted by raw bytes and searched with binary_search (component order)", "named files `<stem>.circom` next to a directory `<stem>/` holding another named file"),
 "C19-r6-m3": ("C19", "a background thread reads every include ahead; the two -L push sites are not guarded by the visited set", "a library file included again after it was parsed (second arm of a diamond)"),
 "C20-r6-m1": ("C20", "after 256 passes the fixpoint loops stop restarting from the entry block", "more than 256 degree passes, a local array written in the entry block and again after an `if`, read by `<--`, and a cut in the window"),
 "C20-r6-m2": ("C20", "the CFG records whether value propagation finished; the Num2Bits pass returns early if it did not", "any value cut and a Num2Bits / Bits2Num whose size is not known to be safe"),
 "C20-r6-m3": ("C20", "the first timed-out definition is stored in a OnceLock with `set(..).unwrap()`", "two time-outs in one process (value and degree of one definition, or two definitions)"),
})

D.update({
 "C01-r7-m1": ("C01", "SARIF artifact URIs are percent-encoded by a helper that advances one byte past the escaped character", "--sarif-file and a path with a multi-byte character that is not alphanumeric (an en dash, a typographic apostrophe, a euro sign)"),
 "C01-r7-m2": ("C01", "a debug! line whose argument takes the maximum over the lines of the file and unwraps it", "RUST_LOG enabling debug for the parser and a zero-length file among those read"),
 "C01-r7-m3": ("C01", "the `.circom` extension test becomes case-insensitive through `to_str().unwrap()`", "a file whose extension is not valid UTF-8 in an input directory, as an input or as -L argument"),
 "C02-r7-m1": ("C02", "write failures on stdout are logged and ignored; the count behind summary and exit status only counts what was emitted", "a dead stdout (full disk, reader gone) next to any failure: exit status 0"),
 "C02-r7-m2": ("C02", "the visited set is keyed by the lower-cased path", "two named files whose paths differ in letter case only; the one given first is never opened"),
 "C02-r7-m3": ("C02", "a `//` comment is blanked in one go: the length is counted in bytes, the skip in characters", "a line comment with multi-byte characters (CJK): the following source text disappears from the parser's input"),
 "C03-r7-m1": ("C03", "entries of a directory input are classified with DirEntry::file_type(), which does not follow symbolic links", "a directory input that contains a symbolic link to a file (or directory) with findings"),
 "C03-r7-m2": ("C03", "the SARIF label check rejects a range that ends at the last byte of the file; the whole conversion then fails quietly", "--sarif-file, a last line without newline and a finding that reaches the last token"),
 "C03-r7-m3": ("C03", "the SARIF file is written to the temp directory and renamed into place", "a temp directory on another file system than the target (EXDEV): no file, or a stale one"),
 "C14-r7-m1": ("C14", "a trace! line calls get_next_version(), which allocates a version", "trace logging enabled for the SSA module and a local array read element-wise"),
 "C14-r7-m2": ("C14", "phis only for variables live on entry to some block, with liveness adding a statement's writes to the kill set before looking at its reads", "a variable whose every read is in a self-updating statement (`x = x + 1`, `a[i] = v`) and which is assigned in a loop or one branch"),
 "C14-r7-m3": ("C14", "a block without statements returns before its versions are pushed into the successors' phis", "an if / else one branch of which is empty (commented-out code) while the other assigns something used afterwards"),
 "C17-r7-m1": ("C17", "inside a block comment `*` followed by any character is blanked by two spaces, whatever the character's length", "a `*` directly in front of a multi-byte character in a /* */ comment: every later position in the file shifts"),
 "C17-r7-m2": ("C17", "the visited set is keyed by the lower-cased path", "two named files whose paths differ in letter case only: the input order decides which one is analysed"),
 "C17-r7-m3": ("C17", "SARIF artifact URIs are percent-encoded by chained String::replace calls in HashMap order", "--sarif-file and a path with a blank, `#`, `?`, `[` or `]`: `%20` or `%2520` by hash order"),
 "C19-r7-m1": ("C19", "visited and named files are remembered by their lower-cased canonical path", "two reachable or named files whose paths differ in letter case only"),
 "C19-r7-m2": ("C19", "a leading byte-order mark is stripped before parsing while the file library keeps the original text", "a named file that starts with EF BB BF and has an unresolvable include: the error is located three bytes early"),
 "C19-r7-m3": ("C19", "a source text whose digest was seen before is skipped, before its includes are resolved", "two byte-identical files in two directories whose relative include leads to different files"),
 "C20-r7-m1": ("C20", "Debug of a substitution prints the propagated constant with .expect(), testing the expression but reading the statement", "debug logging enabled and a value cut in the one-pass window after a constant right-hand side got its value"),
 "C20-r7-m2": ("C20", "the constant-condition pass compares two known operands itself, with plain integer ordering, when the comparison has no value yet", "a value cut between the last operand and the comparison, and an ordering comparison with one negative constant"),
 "C20-r7-m3": ("C20", "both fixpoint loops become a work list drained in HashSet order, the clock checked after each block", "hash order and a degree cut together, with a local array assigned in one block and updated in a nested later one"),
})

D.update({
 "C02-r8-m1": ("C02", "the per-file filter looks at the first primary label only", "a name defined in a named file and again in a file it includes: the duplicate report's first label is in the include"),
 "C02-r8-m2": ("C02", "a version component that overflows parses as 0 (`unwrap_or_default`) instead of saturating", "`pragma circom 2.1.18446744073709551616;`: read as 2.1.0 and accepted"),
 "C03-r8-m1": ("C03", "the per-file filter looks at the first primary label only", "the duplicate-definition report with its first label in an included-only file and the second in a user file"),
 "C03-r8-m2": ("C03", "the cached lifting reports of a definition are taken after the passes ran instead of before", "a template that instantiates itself and ignores an output of the inner instance: the look-up of the definition under analysis fails"),
 "C17-r8-m1": ("C17", "take_template and take_template_reports swapped in analyze_template", "a template with a CFG-stage report instantiated by another one; hash order decides whether the report is seen"),
 "C17-r8-m2": ("C17", "TemplateLibrary::new sorts files by 'is user input' instead of by file id (stable sort over HashMap order)", "one name defined in two files, library mode, and a hash order"),
 "C19-r8-m1": ("C19", "the guard 'a library directory never answers to a dot-prefixed include' becomes `starts_with(\"./\")`", "an unresolvable `../x` include and a -L directory beside whose parent such a file exists"),
 "C19-r8-m2": ("C19", "a -L library file keeps its command-line spelling instead of the canonical path", "a -L file spelled non-canonically, reached through the library and also locally or by name: read twice"),
})

matrix = {}
mp = "/verif/seeded/MATRIX.txt"
if os.path.exists(mp):
    for line in open(mp):
        parts = line.split()
        if len(parts) >= 8:
            matrix[parts[0]] = {kv.split("=")[0]: kv.split("=")[1] for kv in parts[1:]}
head = subprocess.check_output(["git", "-C", "/repo", "log", "--format=%h", "-1"]).decode().strip()
for id_, (prop, what, needs) in D.items():
    d = f"/verif/seeded/{id_}"
    if not os.path.isdir(d):
        continue
    conf = {}
    cl = os.path.join(d, "confirm.log")
    if os.path.exists(cl):
        t = open(cl).read()
        m = re.search(r"tests_rc_with_patch=(\d+) (\d+) ok", t)
        if m: conf["test_suite_with_change"] = f"exit {m.group(1)}, {m.group(2)} tests ok (cargo test --workspace --no-fail-fast --offline)"
        m = re.search(r"demo_rc_with_patch=(\d+)", t)
        if m: conf["demo_with_change_exit"] = int(m.group(1))
        m = re.search(r"demo_rc_without_patch=(\d+)", t)
        if m: conf["demo_without_change_exit"] = int(m.group(1))
    mx = matrix.get(id_, {})
    meta = {
        "id": id_,
        "property_broken": prop,
        "change": what,
        "needs_to_manifest": needs,
        "origin": "written by a sub-agent that was given only the property text and a scratch worktree",
        "confirmed_in_scratch_worktree": conf,
        "what_i_ran": [
            "tools/confirm_mutant.sh <worktree> <m>: git apply, cargo build, cargo test --workspace (must pass), demo.sh (must fail), git checkout, demo.sh (must pass)",
            f"tools/try_mutant.sh seeded/{id_}/patch.diff <checks>: git -C /repo apply, ./check <ID> quick, git -C /repo checkout -- .  (repo at {head})",
        ],
        "quick_checks": mx,
        "caught_by": sorted(k for k, v in mx.items() if v == "CAUGHT"),
    }
    json.dump(meta, open(os.path.join(d, "meta.json"), "w"), indent=1)
print("written", len(D))
