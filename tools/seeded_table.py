#!/usr/bin/env python3
"""Rewrites section 9 of DESIGN.md from seeded/*/meta.json."""
import json, os, re
rows = []
for d in sorted(os.listdir('/verif/seeded')):
    f = f'/verif/seeded/{d}/meta.json'
    if os.path.exists(f):
        rows.append(json.load(open(f)))
checks = ["C01", "C02", "C03", "C14", "C17", "C19", "C20"]
out = []
out.append("## 9. Seeded changes: which check catches which\n")
out.append("Every change below (except the two `own-*` probes, written by hand for a relation no agent change exercised) was\n"
           "written by a fresh sub-agent that was given only the text of one property and a scratch\n"
           "worktree (nothing from /verif), asked for a change that compiles, passes the full test suite and needs something\n"
           "specific to manifest. Each was confirmed in its scratch worktree (`tools/confirm_mutant.sh`: suite passes with the\n"
           "change, the agent's demonstration fails with it and passes without it) and is kept as `/verif/seeded/<id>/`\n"
           "(`patch.diff`, `demo/`, `agent_README.md`, `confirm.log`, `meta.json`). Nine rounds (the eighth with four agents and two changes each, the ninth with three agents and one change each); rounds 2 to 9 were told the\n"
           "mechanisms of the earlier rounds and asked for different ones (round 4 for changes that need a rarely used language\n"
           "feature, a size, a numeric coincidence or an option pair; round 5 for clauses no earlier change had attacked, sites far\n"
           "from the anchor code and silent, self-consistent effects; round 6 for performance work including threads, stage\n"
           "boundaries, trait implementations and error-path-only code; round 7 for the environment and the encoding of inputs and\n"
           "outputs: how paths look, text layout, position arithmetic, escaping, RUST_LOG; rounds 8 and 9 for small slips that come with\n"
           "an API swap or a boundary). Two patches (C02-r2-m1, C17-r5-m2) were re-based by hand after\n"
           "repairs of genuine defects touched the same lines; the agent's original is kept next to them as `patch.orig.diff`. Two round-1 changes (C17-m2, C01-m3) stopped breaking\n"
           "their property after repairs of genuine defects (parameter collision became an error; literals are reduced) and were\n"
           "dropped. Columns: result of `./check <ID> quick` with the change applied to /repo (`tools/try_mutant.sh`);\n"
           "`CAUGHT` = exit 1 with a VIOLATION line, `-` = exit 0, `.` = not run for this change.\n")
out.append("| id | breaks | change | needs | " + " | ".join(checks) + " |")
out.append("|---|---|---|---|" + "---|" * len(checks))
missed = []
for m in rows:
    q = m.get("quick_checks", {})
    cells = [q.get(c, ".") for c in checks]
    cells = ["**caught**" if x == "CAUGHT" else x for x in cells]
    out.append(f"| {m['id']} | {m['property_broken']} | {m['change']} | {m['needs_to_manifest']} | " + " | ".join(cells) + " |")
    if q and "CAUGHT" not in q.values():
        missed.append(m['id'])
out.append("")
n = len(rows)
own = sum(1 for m in rows if m.get("quick_checks", {}).get(m["property_broken"]) == "CAUGHT")
anyc = sum(1 for m in rows if "CAUGHT" in m.get("quick_checks", {}).values())
out.append(f"{n} seeded changes kept; {anyc} caught by at least one quick check, {own} by the check of the property they were written against. "
           + (f"Not caught by any quick check: {', '.join(missed)} (see 9.1)." if missed else "None is missed by all checks."))
out.append("")
text = "\n".join(out)
s = open('/verif/DESIGN.md').read()
i = s.find("## 9. Seeded changes")
j = s.find("### 9.1")
if i < 0:
    s = s.rstrip() + "\n\n" + text + "\n"
elif j > i:
    s = s[:i] + text + "\n" + s[j:]
else:
    s = s[:i] + text + "\n"
open('/verif/DESIGN.md', 'w').write(s)
print("rows", n, "caught", anyc, "own", own, "missed", missed)
