#!/bin/bash
# usage: tools/all_quick.sh [seed...]   -- run every registered quick check for each seed, print verdicts
cd /verif
./check build || exit 2
for s in "${@:-1}"; do
  for p in C01 C02 C03 C14 C17 C19 C20; do
    t0=$(date +%s)
    out=$(VERIF_SEED=$s target/sim/release/sim $p quick 2>&1); rc=$?
    t1=$(date +%s)
    echo "seed=$s $p rc=$rc $((t1-t0))s $(echo "$out" | grep -E '^(VIOLATION|HARNESS)' | head -3 | cut -c1-200 | tr '\n' ' ')"
    echo "$out" | grep -E "^violation detail" | cut -c1-400 | head -3
  done
done
