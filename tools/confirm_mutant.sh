#!/bin/bash
# usage: tools/confirm_mutant.sh <worktree> <mutant-dir-name>
# Confirms in the scratch worktree: patch applies, builds, full test suite passes with it,
# demo fails with it and passes without it. Writes <worktree>/mutants/<m>/confirm.log
wt="$1"; m="$2"; d="$wt/mutants/$m"; log="$d/confirm.log"
cd "$wt" || exit 2
git checkout -q -- . ; : > "$log"
demo=""; for c in demo.sh run_demo.sh demo/run.sh; do [ -f "$d/$c" ] && demo="$d/$c" && break; done
echo "demo=$demo" >> "$log"
git apply "$d/patch.diff" >> "$log" 2>&1 || { echo "RESULT apply-failed" >> "$log"; exit 1; }
cargo build --offline --release -p circomspect >> "$log" 2>&1; cargo build --offline >> "$log" 2>&1
cargo test --workspace --no-fail-fast --offline > "$d/confirm-tests.log" 2>&1; trc=$?
echo "tests_rc_with_patch=$trc $(grep -c '^test .* ok$' "$d/confirm-tests.log") ok, $(grep -c 'FAILED' "$d/confirm-tests.log") failed-lines" >> "$log"
if [ -n "$demo" ]; then ( cd "$d" && timeout 900 bash "$demo" ) > "$d/confirm-demo-with.log" 2>&1; echo "demo_rc_with_patch=$?" >> "$log"; fi
git checkout -q -- .
cargo build --offline --release -p circomspect >> "$log" 2>&1; cargo build --offline >> "$log" 2>&1
if [ -n "$demo" ]; then ( cd "$d" && timeout 900 bash "$demo" ) > "$d/confirm-demo-without.log" 2>&1; echo "demo_rc_without_patch=$?" >> "$log"; fi
echo "RESULT done" >> "$log"
