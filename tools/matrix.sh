#!/bin/bash
# usage: tools/matrix.sh [id...]   -- every seeded change against every quick check; results in /verif/seeded/MATRIX.txt
cd /verif
ids="$@"; [ -z "$ids" ] && ids=$(ls seeded | grep -E '^C[0-9]+-')
out=seeded/MATRIX.txt
for id in $ids; do
  [ -f seeded/$id/patch.diff ] || continue
  res=$(NO_REBUILD=1 VERIF_NOMIN=1 tools/try_mutant.sh /verif/seeded/$id/patch.diff C01,C02,C03,C14,C17,C19,C20 2>&1)
  line="$id"
  for p in C01 C02 C03 C14 C17 C19 C20; do
    rc=$(echo "$res" | grep -E "^--- $p exit=" | sed 's/.*exit=//')
    case "$rc" in 0) v="-";; 1) v="CAUGHT";; *) v="err$rc";; esac
    line="$line $p=$v"
  done
  echo "$line" | tee -a $out
  echo "$res" | grep -E "^violation detail" | cut -c1-200 | sed "s/^/    $id: /" >> seeded/MATRIX-details.txt
done
./check build >/dev/null 2>&1
echo "matrix done" >> $out
