#!/bin/bash
# usage: tools/matrix.sh   -- every seeded change against its own check and the checks related to the
# code it touches; results appended to /verif/seeded/MATRIX.txt ("." = not run)
cd /verif
out=seeded/MATRIX.txt
checks_for() {
  case "$1" in
    C02-m2|C03-m3|C17-m3|C19-*|C02-r2-*|C17-r2-m3|C01-r2-m1|C01-r2-m3) echo "C01,C02,C03,C17,C19";;
    C02-m1|C03-m1|C03-r2-m2) echo "C02,C03,C17";;
    C02-m3|C03-m2|C03-r2-m1|C03-r2-m3|C17-r2-m1|C01-r2-m2) echo "C01,C02,C03,C17";;
    C14-*) echo "C01,C14,C17,C20";;
    C01-m1|C20-*|C17-r2-m2) echo "C01,C14,C17,C20";;
    C17-m1) echo "C03,C17,C20";;
    C01-m2) echo "C01,C02,C03";;
    *) echo "C01,C02,C03,C14,C17,C19,C20";;
  esac
}
for id in $(ls seeded | grep -E '^C[0-9]+-'); do
  [ -f seeded/$id/patch.diff ] || continue
  grep -q "^$id " $out 2>/dev/null && continue
  list=$(checks_for $id)
  res=$(NO_REBUILD=1 VERIF_NOMIN=1 tools/try_mutant.sh /verif/seeded/$id/patch.diff $list 2>&1)
  line="$id"
  for p in C01 C02 C03 C14 C17 C19 C20; do
    rc=$(echo "$res" | grep -E "^--- $p exit=" | sed 's/.*exit=//')
    case "$rc" in 0) v="-";; 1) v="CAUGHT";; "") v=".";; *) v="err$rc";; esac
    line="$line $p=$v"
  done
  echo "$line" | tee -a $out
  echo "$res" | grep -E "^violation detail" | cut -c1-200 | sed "s/^/    $id: /" >> seeded/MATRIX-details.txt
done
./check build >/dev/null 2>&1
echo "matrix done" >> $out
