/*
 * simlaunch <aslr:0|1> <cpu-seconds> <as-bytes> <program> [args...]
 * Sets the address-space layout policy and resource limits, then execs the
 * program. Exists so that the harness can use posix_spawn (no fork of the
 * large harness process per simulated run).
 */
#define _GNU_SOURCE
#include <stdio.h>
#include <stdlib.h>
#include <sys/personality.h>
#include <sys/resource.h>
#include <unistd.h>

int main(int argc, char **argv) {
    if (argc < 5) return 96;
    if (argv[1][0] == '0') personality(ADDR_NO_RANDOMIZE);
    struct rlimit cpu = {(rlim_t)atol(argv[2]), (rlim_t)atol(argv[2]) + 5};
    setrlimit(RLIMIT_CPU, &cpu);
    struct rlimit as = {(rlim_t)atoll(argv[3]), (rlim_t)atoll(argv[3])};
    setrlimit(RLIMIT_AS, &as);
    struct rlimit core = {0, 0};
    setrlimit(RLIMIT_CORE, &core);
    execv(argv[4], &argv[4]);
    return 95;
}
