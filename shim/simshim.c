/*
 * simshim: LD_PRELOAD seam for running the real `circomspect` binary under a
 * deterministic simulator (tier P of /verif/DESIGN.md).
 *
 * Everything the simulated process can observe that is not a function of its
 * argv and the sandbox files is decided by the plan file named in $SIM_PLAN:
 *   - getrandom()      -> the 16-byte hash key of the plan (HashMap/HashSet order)
 *   - clock_gettime()  -> a simulated monotonic clock (PRNG steps + planned stalls)
 *   - open/read/realpath/opendir/readdir/write on sandbox paths
 *                      -> pass-through with planned errnos, short reads, EINTR,
 *                         shuffled directory order
 * Every intercepted call on a sandbox path is appended to the event log with a
 * raw write(2): no allocation, no clock read, no PRNG draw in the logging path.
 *
 * Without $SIM_PLAN every function passes straight through.
 */
#define _GNU_SOURCE
#include <dirent.h>
#include <dlfcn.h>
#include <errno.h>
#include <fcntl.h>
#include <limits.h>
#include <stdarg.h>
#include <stdint.h>
#include <stdio.h>
#include <stdlib.h>
#include <string.h>
#include <sys/stat.h>
#include <sys/syscall.h>
#include <sys/types.h>
#include <sys/uio.h>
#include <time.h>
#include <unistd.h>

#define MAX_FAULTS 64
#define MAX_STALLS 256
#define MAX_FDS 4096
#define MAX_DIRS 16
#define MAX_DENTS 256
#define EXIT_EVENT_BUDGET 97

enum { C_OPEN, C_READ, C_REALPATH, C_CREATE, C_WRITE, C_OPENDIR, C_NCALLS };
static const char *call_names[] = {"open", "read", "realpath", "create", "write", "opendir"};

struct fault {
    int call;
    int err;          /* errno to return; for read: -1 = EINTR once then continue */
    long occurrence;  /* k-th matching call (1-based); 0 = every matching call */
    char suffix[256];
    long seen;
    long fired;
};

struct stall {
    long index;
    long long ns;
};

static int active = 0;
static char root[PATH_MAX];
static size_t root_len = 0;
static int log_fd = -1;
static unsigned char hashkey[16];
static uint64_t clock_state = 0;
static long long clock_max_step = 50000;
static long long clock_now_ns = 1000000000LL; /* simulated monotonic clock */
static long clock_reads = 0;
static struct stall stalls[MAX_STALLS];
static int n_stalls = 0;
static double stall_prob = 0.0; /* per-read stall probability (PRNG from clock stream) */
static long long stall_prob_ns = 11000000000LL;
static struct fault faults[MAX_FAULTS];
static int n_faults = 0;
static long max_events = 20000;
static long n_events = 0;
static long short_read = 0;
static long short_write = 0;
static uint64_t dir_seed = 0;
static long getrandom_calls = 0;
/* wall clock: a fixed epoch plus simulated time, minus planned backward steps */
static long rt_reads = 0;
static long long rt_back_ns = 0;
static long rt_back_index[16];
static long long rt_back_amount[16];
static int n_rt_back = 0;

static int stderr_errno = 0; /* plan: `stderrfail <errno>`: every write to fd 2 fails */
static int stdout_errno = 0; /* plan: `stdoutfail <errno>`: every write to fd 1 fails */

static char *fd_paths[MAX_FDS];
static int fd_created[MAX_FDS];

struct simdir {
    DIR *dir;
    int used;
    int n, pos;
    struct dirent64 ents[MAX_DENTS];
};
static struct simdir dirs[MAX_DIRS];

static int (*real_open64)(const char *, int, ...);
static ssize_t (*real_read)(int, void *, size_t);
static ssize_t (*real_write)(int, const void *, size_t);
static ssize_t (*real_writev)(int, const struct iovec *, int);
static int (*real_close)(int);
static char *(*real_realpath)(const char *, char *);
static DIR *(*real_opendir)(const char *);
static struct dirent64 *(*real_readdir64)(DIR *);
static int (*real_closedir)(DIR *);

static uint64_t splitmix(uint64_t *s) {
    uint64_t z = (*s += 0x9E3779B97F4A7C15ULL);
    z = (z ^ (z >> 30)) * 0xBF58476D1CE4E5B9ULL;
    z = (z ^ (z >> 27)) * 0x94D049BB133111EBULL;
    return z ^ (z >> 31);
}

/* ---------- logging (raw, allocation free) ---------- */

static void raw_write_all(int fd, const char *buf, size_t len) {
    while (len > 0) {
        long r = syscall(SYS_write, fd, buf, len);
        if (r <= 0) {
            if (r < 0 && errno == EINTR) continue;
            return;
        }
        buf += r;
        len -= (size_t)r;
    }
}

static void budget_check(void) {
    n_events++;
    if (n_events > max_events) {
        static const char msg[] = "BUDGET exceeded\n";
        if (log_fd >= 0) raw_write_all(log_fd, msg, sizeof msg - 1);
        syscall(SYS_exit_group, EXIT_EVENT_BUDGET);
    }
}

static void logev(const char *call, const char *path, long long result) {
    if (log_fd < 0) return;
    char buf[PATH_MAX + 128];
    int saved = errno;
    int n = snprintf(buf, sizeof buf, "%s\t%s\t%lld\n", call, path ? path : "-", result);
    if (n > 0) raw_write_all(log_fd, buf, (size_t)n);
    errno = saved;
}

static void logev2(const char *call, const char *path, const char *res) {
    if (log_fd < 0) return;
    char buf[2 * PATH_MAX + 128];
    int saved = errno;
    int n = snprintf(buf, sizeof buf, "%s\t%s\t%s\n", call, path ? path : "-", res ? res : "-");
    if (n > 0) raw_write_all(log_fd, buf, (size_t)n);
    errno = saved;
}

/* ---------- plan ---------- */

static int hexval(int c) {
    if (c >= '0' && c <= '9') return c - '0';
    if (c >= 'a' && c <= 'f') return c - 'a' + 10;
    if (c >= 'A' && c <= 'F') return c - 'A' + 10;
    return 0;
}

static void load_plan(const char *path) {
    FILE *f = fopen(path, "r");
    if (!f) {
        static const char msg[] = "simshim: cannot read SIM_PLAN\n";
        raw_write_all(2, msg, sizeof msg - 1);
        syscall(SYS_exit_group, 98);
    }
    char line[PATH_MAX + 512];
    char logpath[PATH_MAX] = "";
    while (fgets(line, sizeof line, f)) {
        size_t l = strlen(line);
        while (l > 0 && (line[l - 1] == '\n' || line[l - 1] == '\r')) line[--l] = 0;
        char *sp = strchr(line, ' ');
        if (!sp) continue;
        *sp = 0;
        char *arg = sp + 1;
        if (!strcmp(line, "root")) {
            strncpy(root, arg, sizeof root - 1);
            root_len = strlen(root);
        } else if (!strcmp(line, "log")) {
            strncpy(logpath, arg, sizeof logpath - 1);
        } else if (!strcmp(line, "hashkey")) {
            for (int i = 0; i < 16 && arg[2 * i] && arg[2 * i + 1]; i++)
                hashkey[i] = (unsigned char)(hexval(arg[2 * i]) * 16 + hexval(arg[2 * i + 1]));
        } else if (!strcmp(line, "clockseed")) {
            clock_state = strtoull(arg, NULL, 10);
        } else if (!strcmp(line, "clockmax")) {
            clock_max_step = strtoll(arg, NULL, 10);
        } else if (!strcmp(line, "stall")) {
            if (n_stalls < MAX_STALLS) {
                char *e;
                stalls[n_stalls].index = strtol(arg, &e, 10);
                stalls[n_stalls].ns = strtoll(e, NULL, 10);
                n_stalls++;
            }
        } else if (!strcmp(line, "stallprob")) {
            char *e;
            stall_prob = strtod(arg, &e);
            if (*e) stall_prob_ns = strtoll(e, NULL, 10);
        } else if (!strcmp(line, "maxevents")) {
            max_events = strtol(arg, NULL, 10);
        } else if (!strcmp(line, "shortread")) {
            short_read = strtol(arg, NULL, 10);
        } else if (!strcmp(line, "shortwrite")) {
            /* shortwrite <n>: write(2) on a file the program created accepts at most n bytes per call */
            short_write = strtol(arg, NULL, 10);
        } else if (!strcmp(line, "rtback")) {
            /* rtback <wall-clock read index> <ns>: the wall clock steps back (NTP, VM resume) */
            if (n_rt_back < 16) {
                char *e;
                rt_back_index[n_rt_back] = strtol(arg, &e, 10);
                rt_back_amount[n_rt_back] = strtoll(e, NULL, 10);
                n_rt_back++;
            }
        } else if (!strcmp(line, "stderrfail")) {
            stderr_errno = atoi(arg);
        } else if (!strcmp(line, "stdoutfail")) {
            stdout_errno = atoi(arg);
        } else if (!strcmp(line, "dirseed")) {
            dir_seed = strtoull(arg, NULL, 10);
        } else if (!strcmp(line, "fault")) {
            /* fault <call> <errno> <occurrence> <suffix> */
            if (n_faults < MAX_FAULTS) {
                struct fault *ft = &faults[n_faults];
                char cname[32];
                int err;
                long occ;
                int consumed = 0;
                if (sscanf(arg, "%31s %d %ld %n", cname, &err, &occ, &consumed) >= 3) {
                    ft->call = -1;
                    for (int c = 0; c < C_NCALLS; c++)
                        if (!strcmp(cname, call_names[c])) ft->call = c;
                    ft->err = err;
                    ft->occurrence = occ;
                    strncpy(ft->suffix, arg + consumed, sizeof ft->suffix - 1);
                    ft->seen = ft->fired = 0;
                    if (ft->call >= 0) n_faults++;
                }
            }
        }
    }
    fclose(f);
    if (logpath[0]) {
        int fd = (int)syscall(SYS_openat, AT_FDCWD, logpath, O_WRONLY | O_CREAT | O_APPEND | O_CLOEXEC, 0644);
        if (fd >= 0) {
            log_fd = (int)syscall(SYS_dup3, fd, 1000, O_CLOEXEC);
            if (log_fd < 0) log_fd = fd; else syscall(SYS_close, fd);
        }
    }
}

static void resolve(void) {
    real_open64 = dlsym(RTLD_NEXT, "open64");
    real_read = dlsym(RTLD_NEXT, "read");
    real_write = dlsym(RTLD_NEXT, "write");
    real_writev = dlsym(RTLD_NEXT, "writev");
    real_close = dlsym(RTLD_NEXT, "close");
    real_realpath = dlsym(RTLD_NEXT, "realpath");
    real_opendir = dlsym(RTLD_NEXT, "opendir");
    real_readdir64 = dlsym(RTLD_NEXT, "readdir64");
    real_closedir = dlsym(RTLD_NEXT, "closedir");
}

__attribute__((constructor)) static void sim_init(void) {
    resolve();
    const char *plan = getenv("SIM_PLAN");
    if (plan && *plan) {
        load_plan(plan);
        active = 1;
    }
}

/* ---------- helpers ---------- */

static int in_sandbox(const char *path) {
    if (!active || !path) return 0;
    if (path[0] != '/') return 1; /* cwd is the sandbox root */
    return root_len > 0 && strncmp(path, root, root_len) == 0;
}

static int ends_with(const char *s, const char *suffix) {
    size_t a = strlen(s), b = strlen(suffix);
    if (b == 0) return 1;
    return a >= b && strcmp(s + a - b, suffix) == 0;
}

/* Returns the planned errno for this call (0 = none). */
static int planned_fault(int call, const char *path) {
    int result = 0;
    for (int i = 0; i < n_faults; i++) {
        struct fault *ft = &faults[i];
        if (ft->call != call || !ends_with(path, ft->suffix)) continue;
        ft->seen++;
        if (ft->err <= -1000) {
            /* a slow device, not an error: this call takes (-err - 1000) ms of real time
               (the simulated clock does not move; only the order in which concurrent
               readers finish can change) */
            if (ft->occurrence == 0 || ft->seen == ft->occurrence) {
                struct timespec d;
                long ms = -(long)ft->err - 1000;
                d.tv_sec = ms / 1000;
                d.tv_nsec = (ms % 1000) * 1000000L;
                ft->fired++;
                syscall(SYS_nanosleep, &d, NULL);
            }
            continue;
        }
        if (result == 0 && (ft->occurrence == 0 || ft->seen == ft->occurrence)) {
            ft->fired++;
            result = ft->err;
        }
    }
    return result;
}

static void remember_fd(int fd, const char *path, int created) {
    if (fd < 0 || fd >= MAX_FDS) return;
    free(fd_paths[fd]);
    fd_paths[fd] = strdup(path);
    fd_created[fd] = created;
}

/* ---------- randomness and time ---------- */

ssize_t getrandom(void *buf, size_t buflen, unsigned int flags) {
    if (!active) return syscall(SYS_getrandom, buf, buflen, flags);
    /* First 16 bytes are the plan's hash key; anything further is derived from it. */
    uint64_t s = 0;
    for (int i = 0; i < 8; i++) s = (s << 8) | hashkey[i];
    s ^= (uint64_t)getrandom_calls * 0xA24BAED4963EE407ULL;
    unsigned char *out = buf;
    for (size_t i = 0; i < buflen; i++) {
        if (getrandom_calls == 0 && i < 16) out[i] = hashkey[i];
        else out[i] = (unsigned char)splitmix(&s);
    }
    getrandom_calls++;
    budget_check();
    logev("getrandom", "-", (long long)buflen);
    return (ssize_t)buflen;
}

int clock_gettime(clockid_t clk, struct timespec *ts) {
    if (!active) return (int)syscall(SYS_clock_gettime, clk, ts);
    if (clk == CLOCK_REALTIME || clk == CLOCK_REALTIME_COARSE) {
        long idx = rt_reads++;
        long long step = clock_max_step > 0 ? (long long)(splitmix(&clock_state) % (uint64_t)(clock_max_step + 1)) : 0;
        clock_now_ns += step;
        for (int i = 0; i < n_rt_back; i++)
            if (rt_back_index[i] == idx) rt_back_ns += rt_back_amount[i];
        long long wall = 1700000000LL * 1000000000LL + clock_now_ns - rt_back_ns;
        ts->tv_sec = wall / 1000000000LL;
        ts->tv_nsec = wall % 1000000000LL;
        budget_check();
        if (log_fd >= 0) {
            char buf[128];
            int n = snprintf(buf, sizeof buf, "wallclock\t%ld\t%lld\t%lld\n", idx, wall, rt_back_ns);
            if (n > 0) raw_write_all(log_fd, buf, (size_t)n);
        }
        return 0;
    }
    long idx = clock_reads++;
    long long step = clock_max_step > 0 ? (long long)(splitmix(&clock_state) % (uint64_t)(clock_max_step + 1)) : 0;
    clock_now_ns += step;
    long long stalled = 0;
    for (int i = 0; i < n_stalls; i++)
        if (stalls[i].index == idx) stalled += stalls[i].ns;
    if (stall_prob > 0.0) {
        double u = (double)(splitmix(&clock_state) >> 11) / 9007199254740992.0;
        if (u < stall_prob) stalled += stall_prob_ns;
    }
    clock_now_ns += stalled;
    /* The process sees simulated time plus the CPU time it really consumed, so
     * that the time box still bounds genuinely long computations. For ordinary
     * inputs the CPU share is milliseconds and never changes a `> 10 s` test;
     * only the simulated part is logged, so logs stay reproducible. */
    struct timespec cpu = {0, 0};
    syscall(SYS_clock_gettime, CLOCK_PROCESS_CPUTIME_ID, &cpu);
    long long seen = clock_now_ns + (long long)cpu.tv_sec * 1000000000LL + cpu.tv_nsec;
    ts->tv_sec = seen / 1000000000LL;
    ts->tv_nsec = seen % 1000000000LL;
    budget_check();
    if (log_fd >= 0) {
        char buf[128];
        int n = snprintf(buf, sizeof buf, "clock\t%ld\t%lld\t%lld\n", idx, clock_now_ns, stalled);
        if (n > 0) raw_write_all(log_fd, buf, (size_t)n);
    }
    return 0;
}

/* ---------- files ---------- */

static int do_open(const char *path, int flags, mode_t mode) {
    if (!in_sandbox(path)) return real_open64(path, flags, mode);
    budget_check();
    int creating = (flags & O_CREAT) != 0 || (flags & O_ACCMODE) != O_RDONLY;
    int err = planned_fault(creating ? C_CREATE : C_OPEN, path);
    if (err > 0) {
        logev(creating ? "create" : "open", path, -err);
        errno = err;
        return -1;
    }
    int fd = real_open64(path, flags, mode);
    int saved = errno;
    if (fd >= 0) remember_fd(fd, path, creating);
    logev(creating ? "create" : "open", path, fd >= 0 ? fd : -saved);
    errno = saved;
    return fd;
}

int open64(const char *path, int flags, ...) {
    mode_t mode = 0;
    if (flags & (O_CREAT | O_TMPFILE)) {
        va_list ap;
        va_start(ap, flags);
        mode = va_arg(ap, mode_t);
        va_end(ap);
    }
    if (!real_open64) resolve();
    return do_open(path, flags, mode);
}

int open(const char *path, int flags, ...) {
    mode_t mode = 0;
    if (flags & (O_CREAT | O_TMPFILE)) {
        va_list ap;
        va_start(ap, flags);
        mode = va_arg(ap, mode_t);
        va_end(ap);
    }
    if (!real_open64) resolve();
    return do_open(path, flags | O_LARGEFILE, mode);
}

ssize_t read(int fd, void *buf, size_t count) {
    if (!real_read) resolve();
    if (!active || fd < 0 || fd >= MAX_FDS || !fd_paths[fd] || fd_created[fd])
        return real_read(fd, buf, count);
    const char *path = fd_paths[fd];
    budget_check();
    int err = planned_fault(C_READ, path);
    if (err != 0) {
        int e = err < 0 ? EINTR : err;
        logev("read", path, -e);
        errno = e;
        return -1;
    }
    if (short_read > 0 && count > (size_t)short_read) count = (size_t)short_read;
    ssize_t r = real_read(fd, buf, count);
    int saved = errno;
    logev("read", path, r >= 0 ? (long long)r : -(long long)saved);
    errno = saved;
    return r;
}

ssize_t write(int fd, const void *buf, size_t count) {
    if (!real_write) resolve();
    if (active && fd == 2 && stderr_errno > 0) {
        budget_check();
        logev("write", "<stderr>", -stderr_errno);
        errno = stderr_errno;
        return -1;
    }
    if (active && fd == 1 && stdout_errno > 0) {
        budget_check();
        logev("write", "<stdout>", -stdout_errno);
        errno = stdout_errno;
        return -1;
    }
    if (!active || fd < 0 || fd >= MAX_FDS || !fd_paths[fd] || !fd_created[fd])
        return real_write(fd, buf, count);
    const char *path = fd_paths[fd];
    budget_check();
    int err = planned_fault(C_WRITE, path);
    if (err != 0) {
        int e = err < 0 ? EINTR : err;
        logev("write", path, -e);
        errno = e;
        return -1;
    }
    if (short_write > 0 && count > (size_t)short_write) count = (size_t)short_write;
    ssize_t r = real_write(fd, buf, count);
    int saved = errno;
    logev("write", path, r >= 0 ? (long long)r : -(long long)saved);
    errno = saved;
    return r;
}

ssize_t writev(int fd, const struct iovec *iov, int iovcnt) {
    if (!real_writev) resolve();
    if (active && fd == 2 && stderr_errno > 0) {
        budget_check();
        logev("write", "<stderr>", -stderr_errno);
        errno = stderr_errno;
        return -1;
    }
    if (active && fd == 1 && stdout_errno > 0) {
        budget_check();
        logev("write", "<stdout>", -stdout_errno);
        errno = stdout_errno;
        return -1;
    }
    if (!active || fd < 0 || fd >= MAX_FDS || !fd_paths[fd] || !fd_created[fd])
        return real_writev(fd, iov, iovcnt);
    const char *path = fd_paths[fd];
    budget_check();
    int err = planned_fault(C_WRITE, path);
    if (err != 0) {
        int e = err < 0 ? EINTR : err;
        logev("write", path, -e);
        errno = e;
        return -1;
    }
    if (short_write > 0) {
        /* a short vectored write: part of the first non-empty buffer */
        for (int k = 0; k < iovcnt; k++) {
            if (iov[k].iov_len > 0) {
                size_t n = iov[k].iov_len > (size_t)short_write ? (size_t)short_write : iov[k].iov_len;
                ssize_t r = real_write(fd, iov[k].iov_base, n);
                int saved = errno;
                logev("write", path, r >= 0 ? (long long)r : -(long long)saved);
                errno = saved;
                return r;
            }
        }
    }
    ssize_t r = real_writev(fd, iov, iovcnt);
    int saved = errno;
    logev("write", path, r >= 0 ? (long long)r : -(long long)saved);
    errno = saved;
    return r;
}

int close(int fd) {
    if (!real_close) resolve();
    if (active && fd >= 0 && fd < MAX_FDS && fd_paths[fd]) {
        logev("close", fd_paths[fd], fd);
        free(fd_paths[fd]);
        fd_paths[fd] = NULL;
        fd_created[fd] = 0;
    }
    return real_close(fd);
}

char *realpath(const char *path, char *resolved) {
    if (!real_realpath) resolve();
    if (!in_sandbox(path)) return real_realpath(path, resolved);
    budget_check();
    int err = planned_fault(C_REALPATH, path);
    if (err > 0) {
        logev("realpath", path, -err);
        errno = err;
        return NULL;
    }
    char *r = real_realpath(path, resolved);
    int saved = errno;
    if (r) logev2("realpath", path, r);
    else logev("realpath", path, -saved);
    if (r && err == -2) {
        /* the file vanishes between resolution and use */
        syscall(SYS_unlink, r);
        logev("vanish", r, 0);
    }
    errno = saved;
    return r;
}

/* ---------- directories ---------- */

DIR *opendir(const char *name) {
    if (!real_opendir) resolve();
    if (!in_sandbox(name)) return real_opendir(name);
    budget_check();
    int err = planned_fault(C_OPENDIR, name);
    if (err > 0) {
        logev("opendir", name, -err);
        errno = err;
        return NULL;
    }
    DIR *d = real_opendir(name);
    int saved = errno;
    logev("opendir", name, d ? 0 : -saved);
    if (d) {
        for (int i = 0; i < MAX_DIRS; i++) {
            if (dirs[i].used) continue;
            struct simdir *sd = &dirs[i];
            sd->used = 1;
            sd->dir = d;
            sd->n = sd->pos = 0;
            struct dirent64 *e;
            while (sd->n < MAX_DENTS && (e = real_readdir64(d)) != NULL) sd->ents[sd->n++] = *e;
            /* canonical base order (sorted by name), then a seeded shuffle */
            for (int a = 1; a < sd->n; a++) {
                struct dirent64 key = sd->ents[a];
                int b = a - 1;
                while (b >= 0 && strcmp(sd->ents[b].d_name, key.d_name) > 0) {
                    sd->ents[b + 1] = sd->ents[b];
                    b--;
                }
                sd->ents[b + 1] = key;
            }
            if (dir_seed != 0) {
                uint64_t s = dir_seed;
                for (int a = sd->n - 1; a > 0; a--) {
                    int b = (int)(splitmix(&s) % (uint64_t)(a + 1));
                    struct dirent64 t = sd->ents[a];
                    sd->ents[a] = sd->ents[b];
                    sd->ents[b] = t;
                }
            }
            break;
        }
    }
    errno = saved;
    return d;
}

struct dirent64 *readdir64(DIR *d) {
    if (!real_readdir64) resolve();
    if (active) {
        for (int i = 0; i < MAX_DIRS; i++) {
            if (dirs[i].used && dirs[i].dir == d) {
                struct simdir *sd = &dirs[i];
                budget_check();
                if (sd->pos >= sd->n) return NULL;
                struct dirent64 *e = &sd->ents[sd->pos++];
                logev2("readdir", "-", e->d_name);
                return e;
            }
        }
    }
    return real_readdir64(d);
}

struct dirent *readdir(DIR *d) {
    /* struct dirent and struct dirent64 are identical on 64-bit Linux. */
    return (struct dirent *)readdir64(d);
}

int closedir(DIR *d) {
    if (!real_closedir) resolve();
    for (int i = 0; i < MAX_DIRS; i++)
        if (dirs[i].used && dirs[i].dir == d) dirs[i].used = 0;
    return real_closedir(d);
}

/* At exit, append the fault accounting so the harness can count what fired. */
__attribute__((destructor)) static void sim_fini(void) {
    if (!active || log_fd < 0) return;
    for (int i = 0; i < n_faults; i++) {
        char buf[512];
        int n = snprintf(buf, sizeof buf, "fired\t%s:%d:%ld:%s\t%ld\n", call_names[faults[i].call],
                         faults[i].err, faults[i].occurrence, faults[i].suffix, faults[i].fired);
        if (n > 0) raw_write_all(log_fd, buf, (size_t)n);
    }
    char buf[128];
    int n = snprintf(buf, sizeof buf, "end\tclock_reads=%ld\tevents=%ld\n", clock_reads, n_events);
    if (n > 0) raw_write_all(log_fd, buf, (size_t)n);
}
